"""Fault injectors: a faulty Problem wrapper and a faulty linear-solver factory."""

import contextlib
import sys

import numpy as np

COMPONENTS = ["obj", "obj_grad", "cons", "cons_jac", "lag_hess"]


def _bad(kind):
    return {"nan": float("nan"), "inf": float("inf"), "-inf": float("-inf")}[kind]


def on_stack(*func_names):
    f = sys._getframe(1)
    while f is not None:
        if f.f_code.co_name in func_names:
            return True
        f = f.f_back
    return False


def make_faulty_problem(inner, plan, phase_of=None):
    """plan: {"mode": "kth", "component": name|"any", "k": int, "value": "nan|inf|-inf", "entry": int}
          or {"mode": "region", "center": [...], "R": float, "component": name|"any", "value": ...}
    ``phase_of()`` is called when a fault fires and its return value is stored with it.
    """
    from pygradflow.problem import Problem

    class FaultyProblem(Problem):
        def __init__(self):
            kw = {}
            if inner.num_cons > 0:
                kw = dict(cons_lb=inner.cons_lb, cons_ub=inner.cons_ub)
            super().__init__(inner.var_lb, inner.var_ub, **kw)
            self.inner = inner
            self.plan = plan
            self.count = {c: 0 for c in COMPONENTS}
            self.total = 0
            self.fired = []  # (component, index, phase, x)
            self.armed = True
            self.calls = []  # (component) sequence for counting positions

        def _should(self, comp, x):
            p = self.plan
            idx_any = self.total
            idx_comp = self.count[comp]
            self.total += 1
            self.count[comp] += 1
            self.calls.append(comp)
            if p is None or not self.armed:
                return False
            if p["mode"] == "kth":
                if p["component"] == "any":
                    return idx_any == p["k"]
                return comp == p["component"] and idx_comp == p["k"]
            if p["mode"] == "region":
                if p["component"] not in ("any", comp):
                    return False
                c = np.asarray(p["center"], dtype=float)
                return bool(np.max(np.abs(np.asarray(x) - c), initial=0.0) > p["R"])
            return False

        def _fire(self, comp, x):
            ph = phase_of() if phase_of is not None else None
            # (component, overall index, phase, argument, index within this component)
            self.fired.append((comp, self.total - 1, ph, np.array(x, copy=True), self.count[comp] - 1))

        def obj(self, x):
            val = inner.obj(x)
            if self._should("obj", x):
                self._fire("obj", x)
                return _bad(self.plan["value"])
            return val

        def _vec(self, comp, x, val):
            if self._should(comp, x):
                if val.size == 0:
                    return val
                self._fire(comp, x)
                out = np.array(val, dtype=float, copy=True)
                out[self.plan.get("entry", 0) % out.size] = _bad(self.plan["value"])
                return out
            return val

        def _mat(self, comp, x, val):
            if self._should(comp, x):
                if val.nnz == 0:
                    return val
                self._fire(comp, x)
                out = val.copy()
                out.data = out.data.astype(float, copy=True)
                out.data[self.plan.get("entry", 0) % out.data.size] = _bad(self.plan["value"])
                return out
            return val

        def obj_grad(self, x):
            return self._vec("obj_grad", x, inner.obj_grad(x))

        def cons(self, x):
            return self._vec("cons", x, inner.cons(x))

        def cons_jac(self, x):
            return self._mat("cons_jac", x, inner.cons_jac(x))

        def lag_hess(self, x, y):
            return self._mat("lag_hess", x, inner.lag_hess(x, y))

    return FaultyProblem()


class FaultyLinearSolverFactory:
    """Installed as ``pygradflow.linear_solver.linear_solver``.

    Counts factorisations (factory calls) and solves; raises LinearSolverError at the requested
    positions; optionally records (matrix, rhs, solution, x0) of every solve.
    """

    def __init__(self, orig, fail_fact=None, fail_solve=None, record=False, phase_of=None):
        self.orig = orig
        self.fail_fact = fail_fact
        self.fail_solve = fail_solve
        self.record = record
        self.n_fact = 0
        self.n_solve = 0
        self.fired = []  # (kind, index, phase)
        self.solves = []
        self.phase_of = phase_of

    def __call__(self, mat, solver_type, symmetric=False):
        from pygradflow.linear_solver import LinearSolver, LinearSolverError

        k = self.n_fact
        self.n_fact += 1
        if self.fail_fact is not None and k == self.fail_fact:
            self.fired.append(("fact", k, self.phase_of() if self.phase_of else None))
            raise LinearSolverError("injected factorisation failure")
        inner = self.orig(mat, solver_type, symmetric=symmetric)
        factory = self

        class Wrapped(LinearSolver):
            def __init__(self):
                self.symmetric = symmetric
                self.inner = inner
                self.mat = mat

            def solve(self, rhs, trans=False, initial_sol=None):
                j = factory.n_solve
                factory.n_solve += 1
                if factory.fail_solve is not None and j == factory.fail_solve:
                    factory.fired.append(
                        ("solve", j, factory.phase_of() if factory.phase_of else None)
                    )
                    raise LinearSolverError("injected solve failure")
                x0 = None
                if initial_sol is not None:
                    x0v = initial_sol()
                    x0 = None if x0v is None else np.array(x0v, copy=True)
                    sol = inner.solve(rhs, trans=trans, initial_sol=(lambda: x0v))
                else:
                    sol = inner.solve(rhs, trans=trans)
                if factory.record:
                    factory.solves.append(
                        {
                            "mat": mat.copy(),
                            "rhs": np.array(rhs, copy=True),
                            "sol": np.array(sol, copy=True),
                            "x0": x0,
                            "trans": trans,
                            "type": solver_type.name,
                            "observer": on_stack("estimate_rcond"),
                        }
                    )
                return sol

            def num_neg_eigvals(self):
                return inner.num_neg_eigvals()

            def rcond(self):
                return inner.rcond()

        return Wrapped()


@contextlib.contextmanager
def linear_solver_faults(**kw):
    import pygradflow.linear_solver as LS

    orig = LS.linear_solver
    fac = FaultyLinearSolverFactory(orig, **kw)
    LS.linear_solver = fac
    try:
        yield fac
    finally:
        LS.linear_solver = orig
