"""Virtual clock substituted for the ``time`` module attribute of ``pygradflow.timer``.

Timer, the display interval and the Exact controller's deadline test all read the wall clock through
``pygradflow.timer.time.time()`` -- one attribute, replaced here and restored in ``finally``.
"""

import contextlib


class StepClock:
    """Returns 0.0 for the first ``expire_at`` reads, then ``late`` (deadline has passed)."""

    def __init__(self, expire_at=None, late=1.0e6):
        self.expire_at = expire_at
        self.late = late
        self.reads = 0
        self.values = []

    def time(self):
        k = self.reads
        self.reads += 1
        v = 0.0 if (self.expire_at is None or k < self.expire_at) else self.late
        self.values.append(v)
        return v


class PatternClock:
    """Monotone clock advancing by a (cyclic) list of generated increments per read."""

    def __init__(self, increments):
        self.inc = list(increments) or [0.0]
        self.reads = 0
        self.now = 0.0

    def time(self):
        self.now += self.inc[self.reads % len(self.inc)]
        self.reads += 1
        return self.now


@contextlib.contextmanager
def virtual_clock(clock):
    import pygradflow.timer as T

    old = T.time
    T.time = clock
    try:
        yield clock
    finally:
        T.time = old
