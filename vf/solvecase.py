"""Shared 'one solve' cases: strategy, builder, labels, and the KKT / status oracles.

The oracles use only ``Ref`` (dense reference of the *user's* problem) and the integer scaling
weights; they never call pygradflow code.
"""

import numpy as np
from hypothesis import strategies as st

from . import strategies as S
from .spec import Ref, make_user_problem

TAU = 1e-6  # opt_tol default
ALPHA = 1e-8  # active_tol default
LIT = 1e-8  # local_infeas_tol default


@st.composite
def solve_case(
    draw,
    families=("nlp", "qp", "degenerate"),
    max_n=5,
    max_m=3,
    scalings=("none", "none", "custom", "nominal", "gradjac", "kkt"),
    params_kw=None,
    iteration_limit=3000,
    policy=False,
):
    spec = draw(S.any_spec(families=families, max_n=max_n, max_m=max_m))
    start = draw(S.start_point(spec))
    params = draw(S.params_dict(**(params_kw or {})))
    scaling = draw(S.scaling_dict_strategy(spec, kinds=scalings))
    case = {"spec": spec, "start": start, "params": params, "scaling": scaling}
    if iteration_limit is not None:
        case["iteration_limit"] = iteration_limit
    return case


def build(case, **extra):
    """(problem, params, x0, y0) for a case. May raise during Params / Scaling construction."""
    spec = case["spec"]
    problem = make_user_problem(spec, policy=case.get("policy"))
    kw = {}
    if case.get("iteration_limit") is not None:
        kw["iteration_limit"] = int(case["iteration_limit"])
    kw.update(case.get("params_extra", {}))
    kw.update(extra)
    params = S.build_params(case["params"], case.get("scaling"), **kw)
    return problem, params, case["start"].get("x0"), case["start"].get("y0")


def config_labels(case):
    p = case["params"]
    sc = (case.get("scaling") or {}).get("kind", "none")
    r = Ref(case["spec"])
    rows = sorted({r.row_kind(i) for i in range(r.m)})
    vars_ = sorted({r.var_kind(j) for j in range(r.n)})
    labs = [
        f"newton:{p.get('newton_type', 'Simplified')}",
        f"stepsolver:{p.get('step_solver_type', 'Symmetric')}",
        f"linsolver:{p.get('linear_solver_type', 'LU')}",
        f"control:{p.get('step_control_type', 'DistanceRatio')}",
        f"penalty:{p.get('penalty_update', 'DualNorm')}",
        f"activeset:{p.get('active_set_type', 'Standard')}",
        f"scaling:{sc}",
        f"family:{case['spec'].get('family', 'nlp').split(':')[0]}",
    ]
    if "magnified" in case["spec"].get("family", ""):
        labs.append("magnified")
    labs += [f"row:{k}" for k in rows]
    labs += [f"var:{k}" for k in vars_]
    return labs


REL_SLACK = [1e-6]


def slack(tol, *terms):
    """tolerance + rounding slack: relative REL_SLACK (1e-6) on the tolerance plus 1e-12 * sum |terms|."""
    s = 0.0
    for t in terms:
        s += float(np.sum(np.abs(t)))
    return tol * (1.0 + REL_SLACK[0]) + 1e-12 * s


def kkt_violations(spec, x, y, d, vw, cw, ow, tau=TAU, alpha=ALPHA, rel_slack=1e-6):
    """List of (clause, message) where the KKT conditions of the user's problem fail at (x,y,d)
    beyond tau times the corresponding power-of-two factor."""
    REL_SLACK[0] = rel_slack
    r = Ref(spec)
    n, m = r.n, r.m
    x = np.asarray(x, dtype=float)
    y = np.asarray(y, dtype=float)
    d = np.asarray(d, dtype=float)
    out = []
    if x.shape != (n,) or y.shape != (m,) or d.shape != (n,):
        return [("shape", f"shapes x{x.shape} y{y.shape} d{d.shape}")]
    if not (np.all(np.isfinite(x)) and np.all(np.isfinite(y)) and np.all(np.isfinite(d))):
        return [("nonfinite", f"non-finite result x={x} y={y} d={d}")]
    # (1) variable bounds exactly
    if not (np.all(x >= r.lb) and np.all(x <= r.ub)):
        j = int(np.argmax(np.maximum(r.lb - x, x - r.ub)))
        out.append(("bounds-exact", f"x[{j}]={x[j]!r} outside [{r.lb[j]!r},{r.ub[j]!r}]"))
    c = r.c(x)
    J = r.J(x)
    g = r.g(x)
    xs_ = x - r.shift  # magnitudes of the terms actually added (rounding slack)
    fv = np.ldexp(1.0, vw)  # 2^vw
    fc = np.ldexp(1.0, cw)
    # (2) feasibility of rows
    for i in range(m):
        dist = max(r.cl[i] - c[i], c[i] - r.cu[i], 0.0)
        tol = slack(tau / fc[i], r.A[i] * xs_, r.b[i])
        if dist > tol:
            out.append(("row-feasibility", f"row {i} ({r.row_kind(i)}): c={c[i]!r} not in [{r.cl[i]},{r.cu[i]}] by {dist:.3e} > {tol:.3e} (cw={cw[i]})"))
    # (3) stationarity
    res = g + J.T @ y + d
    for j in range(n):
        tol = slack(tau * fv[j] / 2.0**ow, g[j], J[:, j] * y, d[j])
        if abs(res[j]) > tol:
            out.append(("stationarity", f"component {j}: |g+J'y+d|={abs(res[j]):.3e} > {tol:.3e} (vw={vw[j]}, ow={ow})"))
    # (4) sign / complementarity of y on non-equality rows
    for i in range(m):
        if r.cl[i] == r.cu[i]:
            continue
        ytol = slack(tau * fc[i] / 2.0**ow)
        near = (tau + alpha) / fc[i]
        near = slack(near, r.A[i] * xs_, r.b[i])
        if y[i] > ytol and not (np.isfinite(r.cu[i]) and abs(c[i] - r.cu[i]) <= near):
            out.append(("y-sign", f"row {i} ({r.row_kind(i)}): y={y[i]:.3e} > {ytol:.3e} but c={c[i]!r} not at upper bound {r.cu[i]} (dist {abs(c[i]-r.cu[i]):.3e} > {near:.3e})"))
        if y[i] < -ytol and not (np.isfinite(r.cl[i]) and abs(c[i] - r.cl[i]) <= near):
            out.append(("y-sign", f"row {i} ({r.row_kind(i)}): y={y[i]:.3e} < -{ytol:.3e} but c={c[i]!r} not at lower bound {r.cl[i]} (dist {abs(c[i]-r.cl[i]):.3e} > {near:.3e})"))
    # (5) d only at active variable bounds, with the documented sign
    for j in range(n):
        if d[j] == 0.0:
            continue
        a = alpha / fv[j] * (1 + 1e-6)
        at_lo = np.isfinite(r.lb[j]) and abs(x[j] - r.lb[j]) <= a
        at_up = np.isfinite(r.ub[j]) and abs(r.ub[j] - x[j]) <= a
        if not (at_lo or at_up):
            out.append(("d-inactive", f"d[{j}]={d[j]:.3e} but x[{j}]={x[j]!r} not within {a:.1e} of a bound [{r.lb[j]},{r.ub[j]}]"))
        elif d[j] > 0 and not at_up:
            out.append(("d-sign", f"d[{j}]={d[j]:.3e} > 0 but x[{j}] is at its lower bound only"))
        elif d[j] < 0 and not at_lo:
            out.append(("d-sign", f"d[{j}]={d[j]:.3e} < 0 but x[{j}] is at its upper bound only"))
    return out


def active_info(spec, x, y, tau=TAU):
    r = Ref(spec)
    x = np.asarray(x)
    act_b = bool(np.any(np.isfinite(r.lb) & (np.abs(x - r.lb) <= 1e-7)) or np.any(np.isfinite(r.ub) & (np.abs(x - r.ub) <= 1e-7)))
    c = r.c(x)
    act_r = False
    for i in range(r.m):
        if r.cl[i] != r.cu[i] and (abs(c[i] - r.cl[i]) <= 1e-5 or abs(c[i] - r.cu[i]) <= 1e-5):
            act_r = True
    bigy = bool(np.any(np.abs(np.asarray(y)) > 10 * tau))
    return act_b, act_r, bigy
