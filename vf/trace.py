"""Trace recorder: TracingSolver, digest, RecordingProblem, solve driver."""

import hashlib
import logging
import signal
import traceback

import numpy as np

from .spec import jfloat


def quiet_logging(level=None):
    lg = logging.getLogger("gradflow")
    if not any(isinstance(h, logging.NullHandler) for h in lg.handlers):
        lg.addHandler(logging.NullHandler())
    lg.propagate = False
    lg.setLevel(logging.CRITICAL + 10 if level is None else level)
    return lg


class Trial:
    __slots__ = (
        "it_in", "x_in", "y_in", "rho", "dt", "display", "lamb", "accepted",
        "it_out", "x_out", "y_out", "rcond", "exc", "active_set",
    )

    def asdict(self):
        return {
            "rho": self.rho, "dt": self.dt, "lamb": self.lamb, "accepted": self.accepted,
            "x_in": jfloat(np.frombuffer(self.x_in)), "x_out": None if self.x_out is None else jfloat(np.frombuffer(self.x_out)),
        }


def make_tracing_solver(problem, params, solver_cls=None, on_trial=None):
    """Solver subclass instance that records every trial (overrides _compute_step) and every
    ComputedStep callback."""
    from pygradflow.callbacks import CallbackType
    from pygradflow.solver import Solver

    base = solver_cls or Solver

    class TracingSolver(base):
        def __init__(self, problem, params):
            super().__init__(problem, params)
            self.trials = []
            self.cb = []
            self.rho_in_cb = []
            self.in_trial = False
            self.callbacks.register(CallbackType.ComputedStep, self._on_step)

        def reset_trace(self):
            self.trials = []
            self.cb = []
            self.rho_in_cb = []

        def _on_step(self, iterate, next_iterate, accept):
            self.cb.append((iterate, next_iterate, bool(accept)))
            self.rho_in_cb.append(self.rho)

        def _compute_step(self, controller, iterate, rho, dt, display, timer):
            t = Trial()
            t.it_in = iterate
            t.x_in = iterate.x.tobytes()
            t.y_in = iterate.y.tobytes()
            t.rho = rho
            t.dt = dt
            t.display = display
            t.lamb = None
            t.accepted = None
            t.it_out = None
            t.x_out = t.y_out = None
            t.rcond = None
            t.exc = None
            t.active_set = None
            self.trials.append(t)
            self.in_trial = True
            try:
                res = super()._compute_step(controller, iterate, rho, dt, display, timer)
            except BaseException as e:
                t.exc = type(e).__name__
                raise
            finally:
                self.in_trial = False
            t.lamb = res.lamb
            t.accepted = bool(res.accepted)
            t.it_out = res.iterate
            t.x_out = res.iterate.x.tobytes()
            t.y_out = res.iterate.y.tobytes()
            t.rcond = res.rcond
            t.active_set = res.active_set
            if on_trial is not None:
                on_trial(self, t, res)
            return res

    return TracingSolver(problem, params)


def trial_bytes(t):
    h = hashlib.sha256()
    h.update(t.x_in)
    h.update(t.y_in)
    h.update(np.float64(t.rho).tobytes())
    h.update(np.float64(t.dt).tobytes())
    if t.lamb is not None:
        h.update(np.float64(t.lamb).tobytes())
        h.update(b"1" if t.accepted else b"0")
        h.update(t.x_out)
        h.update(t.y_out)
    else:
        h.update(b"exc:" + str(t.exc).encode())
    return h.digest()


def result_bytes(result):
    h = hashlib.sha256()
    h.update(result.status.name.encode())
    h.update(np.ascontiguousarray(result.x).tobytes())
    h.update(np.ascontiguousarray(result.y).tobytes())
    h.update(np.ascontiguousarray(result.d).tobytes())
    h.update(str(int(result.iterations)).encode())
    h.update(str(int(result.num_accepted_steps)).encode())
    return h.digest()


def digest(trials, result=None, exc=None):
    """SHA-256 over the algorithmic fields of a run (never wall time, display flag or rcond)."""
    h = hashlib.sha256()
    for t in trials:
        h.update(trial_bytes(t))
    if result is not None:
        h.update(result_bytes(result))
    if exc is not None:
        h.update(("EXC:" + exc).encode())
    return h.hexdigest()


def innermost_pygradflow_frame(tb):
    """(module.function) of the innermost frame that lives in the pygradflow package."""
    last = None
    for fs in traceback.extract_tb(tb):
        fn = fs.filename.replace("\\", "/")
        if "/pygradflow/" in fn:
            mod = fn.split("/pygradflow/", 1)[1].rsplit(".", 1)[0].replace("/", ".")
            last = f"{mod}.{fs.name}"
    return last


def exc_signature(e):
    return f"{type(e).__name__}@{innermost_pygradflow_frame(e.__traceback__)}"


DELIBERATE_PREFIXES = (
    "Failed to evaluate initial iterate",
    "Inverse step size",
    "Line search failed to converge",
)


def is_deliberate(e):
    from pygradflow.deriv_check import DerivError

    if isinstance(e, DerivError):
        return True
    if type(e) is Exception:
        msg = str(e)
        return any(msg.startswith(p) for p in DELIBERATE_PREFIXES)
    return False


class Timeout(BaseException):
    pass


class alarm:
    """SIGALRM guard (main thread of a worker process only).  Guards nest: a process has a single alarm, so an inner
    guard never outlasts the enclosing one and re-arms it (with what is left of its time) when it ends."""

    def __init__(self, seconds):
        self.seconds = int(seconds)

    def __enter__(self):
        import time

        def handler(signum, frame):
            raise Timeout()

        self.old = signal.signal(signal.SIGALRM, handler)
        self.t0 = time.monotonic()
        self.outer_left = signal.alarm(self.seconds)  # seconds an enclosing guard still had (0: none)
        if self.outer_left and self.outer_left < self.seconds:
            signal.alarm(self.outer_left)
        return self

    def __exit__(self, *a):
        import time

        signal.alarm(0)
        signal.signal(signal.SIGALRM, self.old)
        if self.outer_left:
            signal.alarm(max(1, self.outer_left - int(time.monotonic() - self.t0)))
        return False


class RunOutcome:
    """Everything observable about one solve."""

    def __init__(self):
        self.solver = None
        self.result = None
        self.exc = None  # exception object
        self.exc_sig = None
        self.deliberate = None
        self.trials = []
        self.cb = []
        self.digest = None


def run_solve(problem, params, x0, y0, solver=None, on_trial=None, before_solve=None):
    """Construct (unless given) a tracing solver and solve; never raises (except Timeout)."""
    out = RunOutcome()
    try:
        if solver is None:
            solver = make_tracing_solver(problem, params, on_trial=on_trial)
        else:
            solver.reset_trace()
        out.solver = solver
        if before_solve is not None:
            before_solve(solver)
        x0a = None if x0 is None else (x0 if np.isscalar(x0) else np.asarray(x0, dtype=float))
        y0a = None if y0 is None else (y0 if np.isscalar(y0) else np.asarray(y0, dtype=float))
        out.result = solver.solve(x0a, y0a)
    except Timeout:
        raise
    except Exception as e:  # noqa: BLE001 - classification is the point
        out.exc = e
        out.exc_sig = exc_signature(e)
        out.deliberate = is_deliberate(e)
    if out.solver is not None:
        out.trials = list(out.solver.trials)
        out.cb = list(out.solver.cb)
    out.digest = digest(
        out.trials, out.result, None if out.exc is None else f"{type(out.exc).__name__}:{out.exc}"
    )
    return out


# ------------------------------------------------------------------------------------------------
# RecordingProblem
# ------------------------------------------------------------------------------------------------


def _snap(val):
    import scipy.sparse as sps

    if sps.issparse(val):
        d = {"fmt": val.format, "shape": val.shape, "data": val.data.copy(), "dtype": str(val.data.dtype)}
        if val.format == "coo":
            d["row"] = val.row.copy()
            d["col"] = val.col.copy()
        else:
            d["indices"] = val.indices.copy()
            d["indptr"] = val.indptr.copy()
        return d
    if isinstance(val, np.ndarray):
        return {"arr": val.copy(), "dtype": str(val.dtype), "shape": val.shape}
    return {"val": val}


def _same(val, snap):
    import scipy.sparse as sps

    if sps.issparse(val):
        if val.format != snap["fmt"] or val.shape != snap["shape"] or str(val.data.dtype) != snap["dtype"]:
            return False
        if val.data.tobytes() != snap["data"].tobytes():  # bytes: a NaN entry equals itself
            return False
        if val.format == "coo":
            return np.array_equal(val.row, snap["row"]) and np.array_equal(val.col, snap["col"])
        return np.array_equal(val.indices, snap["indices"]) and np.array_equal(val.indptr, snap["indptr"])
    if isinstance(val, np.ndarray):
        return str(val.dtype) == snap["dtype"] and val.shape == snap["shape"] and np.ascontiguousarray(val).tobytes() == snap["arr"].tobytes()
    return val == snap["val"] or (val != val and snap["val"] != snap["val"])


def caller_frame():
    """innermost pygradflow frame on the current stack (who issued this callback)."""
    import sys

    f = sys._getframe(2)
    while f is not None:
        fn = f.f_code.co_filename.replace("\\", "/")
        if "/pygradflow/" in fn:
            mod = fn.split("/pygradflow/", 1)[1].rsplit(".", 1)[0].replace("/", ".")
            return f"{mod}.{f.f_code.co_name}"
        f = f.f_back
    return None


def algorithmic_frame():
    """innermost pygradflow frame that is not part of the transformation / evaluation plumbing."""
    import sys

    skip = ("scale.", "cons_problem.", "eval.", "iterate.", "transform.")
    f = sys._getframe(2)
    first = None
    while f is not None:
        fn = f.f_code.co_filename.replace("\\", "/")
        if "/pygradflow/" in fn:
            mod = fn.split("/pygradflow/", 1)[1].rsplit(".", 1)[0].replace("/", ".")
            name = f"{mod}.{f.f_code.co_name}"
            if first is None:
                first = name
            if not name.startswith(skip):
                return name
        f = f.f_back
    return first


def make_recording_problem(inner, record_frames=True):
    """Wrap a user problem: log every callback call and snapshot everything returned."""
    from pygradflow.problem import Problem

    class RecordingProblem(Problem):
        def __init__(self):
            kw = {}
            if inner.num_cons > 0:
                kw = dict(cons_lb=inner.cons_lb, cons_ub=inner.cons_ub)
            super().__init__(inner.var_lb, inner.var_ub, **kw)
            self.inner = inner
            self.log = []  # (name, x bytes, in_bounds, frame)
            self.returned = []  # (name, obj, snapshot)
            self.recording = True
            self.lb0 = inner.var_lb.copy()
            self.ub0 = inner.var_ub.copy()

        def clear(self):
            self.log = []

        def _rec(self, name, x, val):
            if self.recording:
                xa = np.asarray(x)
                inb = bool(np.all(xa >= self.lb0) and np.all(xa <= self.ub0))
                fr = algorithmic_frame() if (record_frames and not inb) else None
                self.log.append((name, xa.copy(), inb, fr))
                self.returned.append((name, val, _snap(val)))
            return val

        def obj(self, x):
            return self._rec("obj", x, inner.obj(x))

        def obj_grad(self, x):
            return self._rec("obj_grad", x, inner.obj_grad(x))

        def cons(self, x):
            return self._rec("cons", x, inner.cons(x))

        def cons_jac(self, x):
            return self._rec("cons_jac", x, inner.cons_jac(x))

        def lag_hess(self, x, y):
            return self._rec("lag_hess", x, inner.lag_hess(x, y))

        def modified(self):
            """list of (callback, index) whose returned object no longer equals its snapshot"""
            bad = []
            for k, (name, obj, snap) in enumerate(self.returned):
                if not _same(obj, snap):
                    bad.append((name, k))
            return bad

    return RecordingProblem()
