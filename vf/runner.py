"""16-process collect-then-shrink driver.

    python -m vf.runner <ID> --tier quick|thorough
    python -m vf.runner <ID> --replay <file>

Exit 0: property held on everything explored (KNOWN-FINDING lines possible)
Exit 1: ``VIOLATION property=<ID> replay=<path>`` printed for a violation not listed as known
Exit 2: harness error (never a VIOLATION line)
"""

import argparse
import importlib
import json
import multiprocessing as mp
import os
import sys
import time
import traceback

ROOT = os.path.dirname(os.path.dirname(os.path.abspath(__file__)))
REPO = os.environ.get("VERIF_REPO", "/repo")
NPROC = int(os.environ.get("VERIF_NPROC", "16"))
OUT = os.environ.get("VERIF_OUT", ROOT)  # evidence/ and replays/ go here (mutation runs redirect it)


def _setup_path():
    for p in (ROOT, os.path.join(ROOT, ".deps")):
        if p not in sys.path:
            sys.path.insert(0, p)
    if REPO not in sys.path:
        sys.path.insert(0, REPO)
    os.environ.setdefault("PYGRADFLOW_VERIF", "1")


_setup_path()


def load_prop(pid):
    return importlib.import_module(f"props.{pid.lower()}")


def load_known(pid):
    path = os.path.join(ROOT, "known_findings.json")
    if not os.path.exists(path):
        return []
    with open(path) as f:
        data = json.load(f)
    return [e for e in data.get("findings", []) if e.get("property") == pid and e.get("status") == "known"]


def sig_is_known(sig, known):
    for e in known:
        if sig == e["signature"] or (e.get("prefix") and sig.startswith(e["signature"])):
            return e
    return None


# ------------------------------------------------------------------------------------------------
# outcome helpers (used by property modules)
# ------------------------------------------------------------------------------------------------


def ok(labels=(), nontrivial=True, sub=1, **detail):
    return {"status": "ok", "labels": list(labels), "nontrivial": bool(nontrivial), "sub": sub, "detail": detail}


def trivial(reason, labels=(), sub=1):
    return {"status": "trivial", "labels": list(labels) + [f"trivial:{reason}"], "nontrivial": False, "sub": sub, "detail": {}}


def excluded(reason, labels=()):
    return {"status": "excluded", "labels": list(labels) + [f"excluded:{reason}"], "nontrivial": False, "sub": 0, "detail": {}}


def inconclusive(reason, labels=()):
    return {"status": "inconclusive", "labels": list(labels) + [f"inconclusive:{reason}"], "nontrivial": False, "sub": 0, "detail": {}}


def violation(sig, msg, labels=(), sub=1, **detail):
    return {"status": "violation", "sig": sig, "msg": msg, "labels": list(labels), "nontrivial": True, "sub": sub, "detail": detail}


# ------------------------------------------------------------------------------------------------
# worker
# ------------------------------------------------------------------------------------------------


def derive_seed(seed, pid, shard, salt=0):
    import hashlib

    h = hashlib.sha256(f"{seed}|{pid}|{shard}|{salt}".encode()).digest()
    return int.from_bytes(h[:6], "big")


def _hyp_settings(n, shrink):
    from hypothesis import HealthCheck, Phase, settings

    phases = [Phase.generate, Phase.shrink] if shrink else [Phase.generate]
    return settings(
        max_examples=max(1, n),
        database=None,
        deadline=None,
        derandomize=False,
        report_multiple_bugs=False,
        phases=phases,
        suppress_health_check=[HealthCheck.too_slow, HealthCheck.data_too_large, HealthCheck.large_base_example],
        print_blob=False,
    )


class Collector:
    def __init__(self, prop, max_samples=4, shrink_sig=None, shrink_budget=None):
        from vf.spec import case_hash

        self.case_hash = case_hash
        self.prop = prop
        self.evaluations = 0
        self.sub = 0
        self.status_counts = {}
        self.labels = {}
        self.nontrivial_hashes = set()
        self.hashes = set()
        self.samples = []
        self.max_samples = max_samples
        self.violations = {}  # sig -> {"case":..., "msg":..., "count": n}
        self.shrink_sig = shrink_sig
        self.shrink_deadline = None if shrink_budget is None else time.time() + shrink_budget
        self.best = None  # (size, case, outcome)

    def record(self, case, out):
        self.evaluations += 1
        self.sub += int(out.get("sub", 1))
        st_ = out["status"]
        self.status_counts[st_] = self.status_counts.get(st_, 0) + 1
        for lab in out.get("labels", []):
            self.labels[lab] = self.labels.get(lab, 0) + 1
        h = self.case_hash(case)
        self.hashes.add(h)
        if out.get("nontrivial") and st_ in ("ok", "violation"):
            if h not in self.nontrivial_hashes and len(self.samples) < self.max_samples and st_ == "ok":
                self.samples.append({"case": _shorten(case), "labels": out.get("labels", []), "detail": out.get("detail", {})})
            self.nontrivial_hashes.add(h)
        if st_ == "violation":
            sig = out["sig"]
            size = len(json.dumps(case, default=str))
            v = self.violations.get(sig)
            if v is None or size < v["size"]:
                self.violations[sig] = {
                    "case": case, "msg": out["msg"], "size": size,
                    "count": (v["count"] if v else 0) + 1, "detail": out.get("detail", {}),
                }
            else:
                v["count"] += 1

    def as_dict(self):
        return {
            "evaluations": self.evaluations,
            "sub": self.sub,
            "status_counts": self.status_counts,
            "labels": self.labels,
            "nontrivial_hashes": sorted(self.nontrivial_hashes),
            "n_hashes": len(self.hashes),
            "samples": self.samples,
            "violations": self.violations,
        }


def _shorten(case, limit=6000):
    s = json.dumps(case, default=str)
    if len(s) <= limit:
        return case
    return {"truncated_json": s[:limit] + "...", "full_length": len(s)}


def safe_check(prop, case):
    """Run prop.check under a per-case alarm; harness errors propagate."""
    from vf.trace import Timeout, alarm

    limit = getattr(prop, "CASE_TIMEOUT", 120)
    try:
        import numpy as _np

        _np.seterr(all="ignore")  # every case starts from the same interpreter-wide numeric state
        with alarm(limit):
            return prop.check(case)
    except Timeout:
        return inconclusive("case_timeout")


def run_hypothesis(prop, tier, seed, n_examples, shard, collector, shrink_sig=None):
    """Drive prop.strategy / prop.check (or the stateful machine) with Hypothesis."""
    import hypothesis
    from hypothesis import given

    shrink = shrink_sig is not None

    class Found(Exception):
        pass

    def sink(case, out):
        collector.record(case, out)
        if shrink and out["status"] == "violation" and out["sig"] == shrink_sig:
            size = len(json.dumps(case, default=str))
            expired = collector.shrink_deadline is not None and time.time() > collector.shrink_deadline
            if collector.best is None or (size <= collector.best[0] and not expired):
                collector.best = (size, case, out)
                raise Found(out["msg"])
            if not expired:
                # a failing case larger than the best still counts for Hypothesis
                raise Found(out["msg"])
            # budget expired: only the best case keeps failing so that Hypothesis terminates
            if collector.case_hash(case) == collector.case_hash(collector.best[1]):
                raise Found(out["msg"])

    if hasattr(prop, "machine"):
        from hypothesis.stateful import run_state_machine_as_test

        Machine = prop.machine(tier, sink, lambda case: safe_check(prop, case))
        Machine = hypothesis.seed(seed)(Machine)
        stg = _hyp_settings(n_examples, shrink)
        stg = hypothesis.settings(stg, stateful_step_count=getattr(prop, "STEP_COUNT", 20))
        try:
            run_state_machine_as_test(Machine, settings=stg)
        except Found:
            pass
        if not hasattr(prop, "strategy"):
            return
        # a module may have both a state machine and a plain generated part (own budget)
        n_examples = getattr(prop, "BUDGET_STRATEGY", {}).get(tier, 0)
        if n_examples <= 0:
            return

    strategy = prop.strategy(tier)

    @hypothesis.seed(seed)
    @_hyp_settings(n_examples, shrink)
    @given(case=strategy)
    def test(case):
        out = safe_check(prop, case)
        sink(case, out)

    try:
        test()
    except Found:
        pass


def worker(args):
    pid, tier, seed, shard, nshards, n_examples, shrink_sig, shrink_budget = args
    _setup_path()
    t0 = time.time()
    try:
        import warnings

        import numpy as _np

        warnings.filterwarnings("ignore")
        _np.seterr(all="ignore")
        prop = load_prop(pid)
        from vf.trace import quiet_logging

        quiet_logging()
        col = Collector(prop, shrink_sig=shrink_sig, shrink_budget=shrink_budget)
        # 1. exhaustive / enumerated part, if the property has one
        if shrink_sig is None and hasattr(prop, "enumerate_cases"):
            for case in prop.enumerate_cases(tier, shard, nshards):
                col.record(case, safe_check(prop, case))
        # 2. generated part
        if n_examples > 0:
            run_hypothesis(prop, tier, derive_seed(seed, pid, shard), n_examples, shard, col, shrink_sig)
        d = col.as_dict()
        d["wall_s"] = time.time() - t0
        d["shard"] = shard
        if shrink_sig is not None:
            d["best"] = None if col.best is None else {"case": col.best[1], "msg": col.best[2]["msg"], "detail": col.best[2].get("detail", {})}
        return ("ok", d)
    except BaseException as e:  # harness error
        return ("error", {"shard": shard, "error": f"{type(e).__name__}: {e}", "tb": traceback.format_exc()})


# ------------------------------------------------------------------------------------------------
# main
# ------------------------------------------------------------------------------------------------


def write_replay(pid, sig, case, msg, detail):
    import re

    d = os.path.join(OUT, "replays")
    os.makedirs(d, exist_ok=True)
    name = re.sub(r"[^A-Za-z0-9_.-]+", "_", sig)[:100]
    path = os.path.join(d, f"{pid}-{name}.json")
    with open(path, "w") as f:
        json.dump({"property": pid, "signature": sig, "message": msg, "detail": detail, "case": case}, f, indent=1, default=str)
    return path


def replay(pid, path):
    prop = load_prop(pid)
    from vf.trace import quiet_logging

    quiet_logging()
    with open(path) as f:
        data = json.load(f)
    case = data["case"] if "case" in data else data
    out = safe_check(prop, case)
    print(json.dumps({k: v for k, v in out.items() if k != "detail"}, default=str)[:2000])
    if out["status"] == "violation":
        known = sig_is_known(out["sig"], load_known(pid))
        if known:
            print(f"KNOWN-FINDING: property={pid} {known['what']}")
            return 0
        print(f"VIOLATION property={pid} replay={path}")
        return 1
    return 0


def run_regress(pid, prop):
    """Replay every committed regression case; returns list of (sig, case, msg, path)."""
    from vf.trace import quiet_logging

    quiet_logging()
    d = os.path.join(ROOT, "regress", pid)
    found, n = [], 0
    if not os.path.isdir(d):
        return found, n
    for name in sorted(os.listdir(d)):
        if not name.endswith(".json"):
            continue
        with open(os.path.join(d, name)) as f:
            data = json.load(f)
        case = data["case"] if "case" in data else data
        out = safe_check(prop, case)
        n += 1
        if out["status"] == "violation":
            found.append((out["sig"], case, out["msg"], os.path.join(d, name), out.get("detail", {})))
    return found, n


def main(argv=None):
    ap = argparse.ArgumentParser()
    ap.add_argument("pid")
    ap.add_argument("--tier", default=None)
    ap.add_argument("--replay", default=None)
    ap.add_argument("--examples", type=int, default=None, help="override examples per worker")
    ap.add_argument("--nproc", type=int, default=None)
    a = ap.parse_args(argv)
    pid = a.pid.upper()
    if a.replay:
        try:
            return replay(pid, a.replay)
        except Exception:
            traceback.print_exc()
            return 2
    tier = a.tier or os.environ.get("VERIF_TIER") or "quick"
    if tier not in ("quick", "thorough"):
        tier = "quick"
    seed = int(os.environ.get("VERIF_SEED", "1") or "1")
    nproc = a.nproc or NPROC
    t0 = time.time()
    try:
        prop = load_prop(pid)
    except Exception:
        traceback.print_exc()
        print(f"HARNESS-ERROR property={pid} cannot import property module", file=sys.stderr)
        return 2
    known = load_known(pid)
    n_examples = a.examples if a.examples is not None else prop.BUDGET[tier]
    ctx = mp.get_context("spawn")

    # regression tier
    try:
        reg_found, reg_n = run_regress(pid, prop)
    except Exception:
        traceback.print_exc()
        print(f"HARNESS-ERROR property={pid} regress tier failed", file=sys.stderr)
        return 2

    jobs = [(pid, tier, seed, s, nproc, n_examples, None, None) for s in range(nproc)]
    with ctx.Pool(nproc) as pool:
        results = pool.map(worker, jobs, chunksize=1)
    errors = [r[1] for r in results if r[0] == "error"]
    if errors:
        for e in errors[:3]:
            print(e["tb"], file=sys.stderr)
        print(f"HARNESS-ERROR property={pid} {len(errors)} worker(s) failed: {errors[0]['error']}", file=sys.stderr)
        return 2
    parts = [r[1] for r in results]

    # aggregate
    agg = {"evaluations": 0, "sub": 0, "status_counts": {}, "labels": {}, "samples": []}
    nontrivial = set()
    buckets = {}  # sig -> {"case", "msg", "count", "shard"}
    for p in parts:
        agg["evaluations"] += p["evaluations"]
        agg["sub"] += p["sub"]
        for k, v in p["status_counts"].items():
            agg["status_counts"][k] = agg["status_counts"].get(k, 0) + v
        for k, v in p["labels"].items():
            agg["labels"][k] = agg["labels"].get(k, 0) + v
        nontrivial.update(p["nontrivial_hashes"])
        for s in p["samples"]:
            if len(agg["samples"]) < 4:
                agg["samples"].append(s)
        for sig, v in p["violations"].items():
            b = buckets.get(sig)
            if b is None or v["size"] < b["size"]:
                nb = dict(v)
                nb["shard"] = p["shard"]
                nb["count"] = v["count"] + (b["count"] if b else 0)
                buckets[sig] = nb
            else:
                b["count"] += v["count"]
    for sig, case, msg, path, detail in reg_found:
        if sig not in buckets:
            buckets[sig] = {"case": case, "msg": msg, "count": 1, "shard": None, "size": len(json.dumps(case, default=str)), "regress": path, "detail": detail}

    new_buckets = {s: b for s, b in buckets.items() if not sig_is_known(s, known)}
    known_hits = {s: b for s, b in buckets.items() if sig_is_known(s, known)}

    # shrink each new bucket (bounded) and write replays
    violations_out = []
    shrink_budget = getattr(prop, "SHRINK_BUDGET", {"quick": 30, "thorough": 240})[tier]
    todo = sorted(new_buckets.items(), key=lambda kv: kv[1]["size"])[:6]
    sjobs = []
    for sig, b in todo:
        if b["shard"] is None or getattr(prop, "NO_SHRINK", False):
            continue
        sjobs.append((pid, tier, seed, b["shard"], nproc, n_examples, sig, shrink_budget))
    shrunk = {}
    if sjobs:
        with ctx.Pool(min(len(sjobs), nproc)) as pool:
            for job, r in zip(sjobs, pool.map(worker, sjobs, chunksize=1)):
                if r[0] == "ok" and r[1].get("best"):
                    shrunk[job[6]] = r[1]["best"]
    for sig, b in new_buckets.items():
        best = shrunk.get(sig)
        case, msg, detail = (best["case"], best["msg"], best.get("detail", {})) if best else (b["case"], b["msg"], b.get("detail", {}))
        if best is not None and len(json.dumps(case, default=str)) > b["size"]:
            case, msg, detail = b["case"], b["msg"], b.get("detail", {})
        path = write_replay(pid, sig, case, msg, detail)
        violations_out.append((sig, path, msg, b["count"]))

    wall = time.time() - t0
    # evidence
    rule = prop.RULE
    coverage = {
        "evaluations": agg["evaluations"],
        "distinct_nontrivial": len(nontrivial),
        "rule": rule,
        "samples": agg["samples"] or [{"note": "no non-trivial sample in this run"}],
        "executions": agg["sub"],
        "status_counts": agg["status_counts"],
        "class_histogram": dict(sorted(agg["labels"].items())),
        "regress_cases_replayed": reg_n,
        "known_excluded": {s: b["count"] for s, b in known_hits.items()},
        "new_violation_buckets": {s: {"count": c, "replay": p, "message": m[:500]} for s, p, m, c in violations_out},
        "workers": nproc,
        "examples_per_worker": n_examples,
    }
    if getattr(prop, "EXHAUSTIVE", None) and prop.EXHAUSTIVE.get(tier):
        coverage["exhaustive"] = True
        coverage["exhaustive_scope"] = prop.EXHAUSTIVE[tier]
    evidence = {
        "property_id": pid,
        "tier": tier,
        "seed": seed,
        "level": prop.LEVEL,
        "coverage": coverage,
        "assumptions": list(getattr(prop, "ASSUMPTIONS", [])),
        "wall_s": round(wall, 2),
        "violations": len(violations_out),
    }
    os.makedirs(os.path.join(OUT, "evidence"), exist_ok=True)
    with open(os.path.join(OUT, "evidence", f"{pid}.json"), "w") as f:
        json.dump(evidence, f, indent=1, default=str)

    # report
    print(
        f"[{pid}] tier={tier} seed={seed} cases={agg['evaluations']} executions={agg['sub']} "
        f"distinct_nontrivial={len(nontrivial)} status={agg['status_counts']} wall={wall:.1f}s"
    )
    for sig, b in known_hits.items():
        e = sig_is_known(sig, known)
        print(f"KNOWN-FINDING: property={pid} {e['what']} [signature={sig} hits={b['count']}]")
    # required classes (generator health) -> harness error, never a violation
    req = getattr(prop, "REQUIRED_LABELS", {}).get(tier, [])
    missing = [lab for lab in req if agg["labels"].get(lab, 0) == 0]
    if violations_out:
        for sig, path, msg, cnt in violations_out:
            print(f"  bucket {sig} x{cnt}: {msg[:300]}")
            print(f"VIOLATION property={pid} replay={path}")
        return 1
    if missing:
        print(f"HARNESS-ERROR property={pid} generator never produced required classes: {missing}", file=sys.stderr)
        return 2
    if len(nontrivial) < 2:
        print(f"HARNESS-ERROR property={pid} fewer than 2 distinct non-trivial cases", file=sys.stderr)
        return 2
    return 0


if __name__ == "__main__":
    sys.exit(main())
