"""Problem specifications, the user's Problem built from one, and the dense reference model.

A *spec* is plain JSON-able data (dict of lists / floats).  Two independent things are derived:

* ``Ref``          dense numpy f, g, c, J, H(x, y) -- never imports pygradflow.
* ``UserProblem``  a ``pygradflow.problem.Problem`` with sparse callbacks in a chosen format and
                   return policy (fresh / cached constant / memoised per point).

Functions (all finite and C-infinity on R^n):

    f(x)   = 1/2 x'Qx + q'x + sum_j w_j cos(x_j) + sum_j v_j x_j^4 / 24
    c_i(x) = a_i'x + 1/2 x'H_i x + u_i sin(t_i'x) - b_i

``RefInternal`` is the reference *transformation* (power-of-two scaling + slack/offset embedding)
used by C04 and by everything that needs internal quantities without trusting pygradflow.
"""

import math

import numpy as np

INF = float("inf")


def arr(v, shape=None):
    a = np.array(v, dtype=float)
    if shape is not None:
        a = a.reshape(shape)
    return a


class Ref:
    """Dense reference evaluation of a spec. Pure numpy."""

    def __init__(self, spec):
        self.spec = spec
        n = self.n = int(spec["n"])
        m = self.m = int(spec["m"])
        self.Q = arr(spec["Q"], (n, n))
        self.q = arr(spec["q"], (n,))
        self.w = arr(spec.get("w", [0.0] * n), (n,))
        self.v = arr(spec.get("v", [0.0] * n), (n,))
        self.A = arr(spec.get("A", []), (m, n))
        Hc = spec.get("Hc")
        self.Hc = None if Hc is None else arr(Hc, (m, n, n))
        self.u = arr(spec.get("u", [0.0] * m), (m,))
        self.T = arr(spec.get("T", [[0.0] * n] * m), (m, n))
        self.b = arr(spec.get("b", [0.0] * m), (m,))
        self.lb = arr(spec["lb"], (n,))
        self.ub = arr(spec["ub"], (n,))
        self.cl = arr(spec.get("cl", []), (m,))
        self.cu = arr(spec.get("cu", []), (m,))
        # optional translation of the variables / rows ("large magnitude" family): all functions are
        # evaluated at x - shift, rows are c(x - shift) + rshift; bounds in the spec are already shifted
        self.shift = arr(spec.get("shift", [0.0] * n), (n,))
        self.rshift = arr(spec.get("rshift", [0.0] * m), (m,))

    # -- structure --------------------------------------------------------------------------
    @property
    def affine(self):
        return (self.Hc is None or not self.Hc.any()) and not self.u.any()

    @property
    def quadratic_obj(self):
        return not self.w.any() and not self.v.any()

    # -- objective --------------------------------------------------------------------------
    def f(self, x):
        x = np.asarray(x, dtype=float) - self.shift
        return float(
            0.5 * x @ (self.Q @ x)
            + self.q @ x
            + np.sum(self.w * np.cos(x))
            + np.sum(self.v * x**4) / 24.0
        )

    def g(self, x):
        x = np.asarray(x, dtype=float) - self.shift
        return self.Q @ x + self.q - self.w * np.sin(x) + self.v * x**3 / 6.0

    def hf(self, x):
        x = np.asarray(x, dtype=float) - self.shift
        return self.Q + np.diag(-self.w * np.cos(x) + self.v * x**2 / 2.0)

    # -- constraints ------------------------------------------------------------------------
    def c(self, x):
        x = np.asarray(x, dtype=float) - self.shift
        m = self.m
        if m == 0:
            return np.zeros((0,))
        val = self.A @ x - self.b
        if self.Hc is not None:
            val = val + 0.5 * np.einsum("j,ijk,k->i", x, self.Hc, x)
        if self.u.any():
            val = val + self.u * np.sin(self.T @ x)
        if self.rshift.any():
            val = val + self.rshift
        return val

    def J(self, x):
        x = np.asarray(x, dtype=float) - self.shift
        m, n = self.m, self.n
        if m == 0:
            return np.zeros((0, n))
        jac = self.A.copy()
        if self.Hc is not None:
            jac = jac + np.einsum("ijk,k->ij", self.Hc, x)
        if self.u.any():
            jac = jac + (self.u * np.cos(self.T @ x))[:, None] * self.T
        return jac

    def hc(self, x, y):
        """sum_i y_i * Hessian(c_i)(x)"""
        x = np.asarray(x, dtype=float) - self.shift
        y = np.asarray(y, dtype=float)
        n, m = self.n, self.m
        H = np.zeros((n, n))
        if m == 0:
            return H
        if self.Hc is not None:
            H = H + np.einsum("i,ijk->jk", y, self.Hc)
        if self.u.any():
            s = -self.u * np.sin(self.T @ x) * y
            H = H + np.einsum("i,ij,ik->jk", s, self.T, self.T)
        return H

    def H(self, x, y):
        return self.hf(x) + self.hc(x, y)

    # -- helpers ----------------------------------------------------------------------------
    def in_box(self, x):
        x = np.asarray(x)
        return bool(np.all(x >= self.lb) and np.all(x <= self.ub))

    def row_kind(self, i):
        l, u = self.cl[i], self.cu[i]
        if l == u:
            return "eq0" if l == 0.0 else "eqnz"
        if np.isfinite(l) and np.isfinite(u):
            return "ranged"
        if np.isfinite(l):
            return "lower"
        if np.isfinite(u):
            return "upper"
        return "freerow"

    def var_kind(self, j):
        l, u = self.lb[j], self.ub[j]
        if l == u:
            return "fixed"
        if np.isfinite(l) and np.isfinite(u):
            return "boxed"
        if np.isfinite(l):
            return "lower"
        if np.isfinite(u):
            return "upper"
        return "free"


def p2(k):
    """2**k as an exact float array / scalar (k integer array)."""
    return np.ldexp(1.0, np.asarray(k, dtype=int))


class RefInternal:
    """Reference for the scaled + slack problem the core algorithm sees.

    vw, cw integer arrays, ow integer.  Internal variables X = [2^vw * x ; s] with one slack per
    row whose (scaled) bounds differ; equality rows with non-zero rhs get an offset.
    Everything is exact in floating point (multiplication by powers of two) absent overflow.
    """

    def __init__(self, spec, vw=None, cw=None, ow=0):
        self.ref = r = Ref(spec)
        n, m = r.n, r.m
        self.vw = np.zeros(n, dtype=int) if vw is None else np.asarray(vw, dtype=int)
        self.cw = np.zeros(m, dtype=int) if cw is None else np.asarray(cw, dtype=int)
        self.ow = int(ow)
        self.lb_s = r.lb * p2(self.vw)
        self.ub_s = r.ub * p2(self.vw)
        self.cl_s = r.cl * p2(self.cw)
        self.cu_s = r.cu * p2(self.cw)
        self.slack_rows = np.array(
            [i for i in range(m) if self.cl_s[i] != self.cu_s[i]], dtype=int
        )
        self.ns = len(self.slack_rows)
        self.N = n + self.ns
        self.offset = np.zeros(m)
        for i in range(m):
            if self.cl_s[i] == self.cu_s[i] and self.cl_s[i] != 0.0:
                self.offset[i] = -self.cl_s[i]
        self.var_lb = np.concatenate([self.lb_s, self.cl_s[self.slack_rows]])
        self.var_ub = np.concatenate([self.ub_s, self.cu_s[self.slack_rows]])

    def split(self, X):
        X = np.asarray(X, dtype=float)
        n = self.ref.n
        return X[:n] * p2(-self.vw), X[n:]

    def obj(self, X):
        x, _ = self.split(X)
        return self.ref.f(x) * float(p2(self.ow))

    def grad(self, X):
        x, _ = self.split(X)
        g = self.ref.g(x) * p2(self.ow - self.vw)
        return np.concatenate([g, np.zeros(self.ns)])

    def cons(self, X):
        x, s = self.split(X)
        c = self.ref.c(x) * p2(self.cw)
        c = c + self.offset
        for k, i in enumerate(self.slack_rows):
            c[i] = c[i] - s[k]
        return c

    def jac(self, X):
        x, _ = self.split(X)
        m = self.ref.m
        J = self.ref.J(x) * p2(self.cw[:, None] - self.vw[None, :])
        E = np.zeros((m, self.ns))
        for k, i in enumerate(self.slack_rows):
            E[i, k] = -1.0
        return np.hstack([J, E])

    def hess(self, X, Y):
        x, _ = self.split(X)
        Y = np.asarray(Y, dtype=float)
        y_user = Y * p2(self.cw - self.ow)
        n = self.ref.n
        H = self.ref.H(x, y_user) * p2(self.ow - self.vw[:, None] - self.vw[None, :])
        out = np.zeros((self.N, self.N))
        out[:n, :n] = H
        return out

    # user -> internal
    def to_internal(self, x, y):
        x = np.asarray(x, dtype=float)
        y = np.asarray(y, dtype=float)
        X = x * p2(self.vw)
        c = self.ref.c(x) * p2(self.cw)
        s = np.array(
            [
                min(max(c[i], self.cl_s[i]), self.cu_s[i])
                for i in self.slack_rows
            ],
            dtype=float,
        )
        Y = y * p2(-(self.cw - self.ow))
        return np.concatenate([X, s]), Y

    # internal -> user
    def to_user(self, X, Y, D):
        n = self.ref.n
        X = np.asarray(X, dtype=float)
        Y = np.asarray(Y, dtype=float)
        D = np.asarray(D, dtype=float)
        return (
            X[:n] * p2(-self.vw),
            Y * p2(self.cw - self.ow),
            D[:n] * p2(self.vw - self.ow),
        )

    # -- internal algorithmic quantities (independent re-implementation) --------------------
    def aug_lag(self, X, Y, rho):
        c = self.cons(X)
        return self.obj(X) + rho / 2.0 * float(c @ c) + float(c @ Y)

    def aug_lag_dx(self, X, Y, rho):
        c = self.cons(X)
        return self.grad(X) + self.jac(X).T @ (Y + rho * c)

    def aug_lag_dxx(self, X, Y, rho):
        c = self.cons(X)
        J = self.jac(X)
        return self.hess(X, Y + rho * c) + rho * (J.T @ J)

    def euler_residual(self, Xn, Yn, X0, Y0, dt, rho):
        """F(z; z0, dt, rho) with the *full* box projection."""
        p = X0 - dt * self.aug_lag_dx(Xn, Yn, rho)
        p = np.minimum(np.maximum(p, self.var_lb), self.var_ub)
        fx = Xn - p
        fy = Yn - (Y0 + dt * self.cons(Xn))
        return np.concatenate([fx, fy])


# ------------------------------------------------------------------------------------------------
# The user's Problem (imports pygradflow lazily so that Ref stays independent)
# ------------------------------------------------------------------------------------------------


def _to_sparse(dense, fmt, style=None):
    """style None: canonical matrix without stored zeros.  "zeros": every entry is stored, exact zeros
    included (a fixed sparsity pattern).  "dup": every non-zero entry is stored twice as 3v/4 + v/4
    (term-by-term assembly; both parts and their sum are exact for dyadic v, but fl(3v/4 * y) + fl(v/4 * y) is
    not fl(v * y), so merging or re-ordering the duplicates shows in the bits); duplicates are kept un-summed in all
    three formats, and in COO the second parts follow after all first parts."""
    import scipy.sparse as sps

    D = np.asarray(dense, dtype=float)
    if style == "int":
        # constant matrices written with integer literals: integer dtype whenever every entry is integral
        M = sps.coo_matrix(D)
        if np.all(D == np.round(D)) and np.all(np.abs(D) < 2**31):
            M = M.astype(np.int64)
        return M if fmt == "coo" else (M.tocsr() if fmt == "csr" else M.tocsc())
    if style is None:
        M = sps.coo_matrix(D)
        if fmt == "coo":
            return M
        if fmt == "csr":
            return M.tocsr()
        if fmt == "csc":
            return M.tocsc()
        raise ValueError(fmt)
    r, c = D.shape
    rows, cols, data = [], [], []
    order = [(i, j) for i in range(r) for j in range(c)] if fmt != "csc" else [(i, j) for j in range(c) for i in range(r)]
    for i, j in order:
        v = D[i, j]
        if style == "zeros":
            rows.append(i), cols.append(j), data.append(v)
        elif v != 0.0 and fmt != "coo":
            rows += [i, i]
            cols += [j, j]
            data += [0.75 * v, 0.25 * v]
        elif v != 0.0:
            rows.append(i), cols.append(j), data.append(0.75 * v)
    if style == "dup" and fmt == "coo":
        for i, j in order:
            if D[i, j] != 0.0:
                rows.append(i), cols.append(j), data.append(0.25 * D[i, j])
    rows, cols, data = np.array(rows, dtype=np.int32), np.array(cols, dtype=np.int32), np.array(data, dtype=float)
    if fmt == "coo":
        return sps.coo_matrix((data, (rows, cols)), shape=(r, c))
    if fmt == "csr":
        indptr = np.zeros(r + 1, dtype=np.int32)
        np.add.at(indptr, rows + 1, 1)
        return sps.csr_matrix((data, cols, np.cumsum(indptr).astype(np.int32)), shape=(r, c))
    indptr = np.zeros(c + 1, dtype=np.int32)
    np.add.at(indptr, cols + 1, 1)
    return sps.csc_matrix((data, rows, np.cumsum(indptr).astype(np.int32)), shape=(r, c))


def make_user_problem(spec, fmt=None, policy=None):
    """Build the pygradflow Problem for a spec.

    fmt: {"jac": "coo|csr|csc", "hess": ...};  policy: per callback in
    {"fresh", "const", "memo"}: "const" returns one cached object forever (only meaningful when
    the callback's value does not depend on its argument), "memo" caches one object per argument.
    """
    from pygradflow.problem import Problem

    fmt = dict(fmt or spec.get("fmt") or {})
    policy = dict(policy or spec.get("policy") or {})
    jac_fmt = fmt.get("jac", "coo")
    hess_fmt = fmt.get("hess", "coo")
    jac_style = fmt.get("jac_style")
    hess_style = fmt.get("hess_style")

    ref = Ref(spec)

    class UserProblem(Problem):
        def __init__(self):
            kw = {}
            if ref.m > 0:
                kw = dict(cons_lb=ref.cl.copy(), cons_ub=ref.cu.copy())
            if spec.get("bounds_dtype") == "int":
                # a user who writes var_lb = np.array([1, 2]): integer-typed bound arrays
                super().__init__(ref.lb.astype(np.int64), ref.ub.astype(np.int64), **kw)
            else:
                super().__init__(ref.lb.copy(), ref.ub.copy(), **kw)
            self._cache = {}
            self.ref = ref
            self.returned = []  # (callback, object) of everything handed to pygradflow

        def _ret(self, name, key, make):
            pol = policy.get(name, "fresh")
            if pol == "fresh":
                val = make()
            elif pol == "const":
                if (name,) not in self._cache:
                    self._cache[(name,)] = make()
                val = self._cache[(name,)]
            else:  # memo
                k = (name, key)
                if k not in self._cache:
                    self._cache[k] = make()
                val = self._cache[k]
            return val

        def obj(self, x):
            return ref.f(x)

        def obj_grad(self, x):
            return self._ret("obj_grad", x.tobytes(), lambda: ref.g(x))

        def cons(self, x):
            return self._ret("cons", x.tobytes(), lambda: ref.c(x))

        def cons_jac(self, x):
            return self._ret(
                "cons_jac", x.tobytes(), lambda: _to_sparse(ref.J(x), jac_fmt, jac_style)
            )

        def lag_hess(self, x, y):
            return self._ret(
                "lag_hess",
                x.tobytes() + np.asarray(y).tobytes(),
                lambda: _to_sparse(ref.H(x, y), hess_fmt, hess_style),
            )

    return UserProblem()


def case_hash(case):
    import hashlib
    import json

    return hashlib.sha256(
        json.dumps(case, sort_keys=True, default=str).encode()
    ).hexdigest()[:16]


def fin(v):
    return bool(np.all(np.isfinite(v)))


def jfloat(v):
    """numpy -> JSON-able"""
    if isinstance(v, np.ndarray):
        return [jfloat(t) for t in v.tolist()]
    if isinstance(v, (np.floating,)):
        return float(v)
    if isinstance(v, (np.integer,)):
        return int(v)
    if isinstance(v, (np.bool_,)):
        return bool(v)
    if isinstance(v, (list, tuple)):
        return [jfloat(t) for t in v]
    if isinstance(v, dict):
        return {str(k): jfloat(t) for k, t in v.items()}
    return v
