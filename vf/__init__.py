"""Verification framework for chrhansk/pygradflow (property-based testing and fuzzing).

Layout
------
spec.py        problem specifications, the user-facing Problem built from a spec, and the dense
               reference model (never imports pygradflow)
strategies.py  Hypothesis strategies for specs, start points and Params
trace.py       TracingSolver / RecordingProblem / digest
clock.py       virtual clock substituted for pygradflow.timer.time
faults.py      fault-injecting problem wrapper and linear-solver factory
runner.py      16-process collect-then-shrink driver, evidence writer, replay
"""
