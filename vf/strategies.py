"""Hypothesis strategies: problem specs (by family), start points, Params dictionaries.

All draws produce plain JSON-able data; every random choice is a Hypothesis draw.
Data entries are small dyadic rationals (integer / 8) -- good shrinking, exact arithmetic.
"""

import numpy as np
from hypothesis import strategies as st

from .spec import INF, Ref

SMALL = st.integers(-16, 16)
DECIMALS = [0.1, 0.3, 0.7, 0.013, 1.1, 2.9, 0.0]
# "no bound": usually infinity, sometimes the huge-but-finite encodings used by AMPL / CUTEst / Ipopt models
NO_BOUND = st.sampled_from([INF] * 8 + [1e20, 1e30])


def dy(draw, lo=-16, hi=16, den=8.0):
    return draw(st.integers(lo, hi)) / den


def dvec(draw, k, lo=-16, hi=16, den=8.0):
    if k == 0:
        return []
    return [
        v / den
        for v in draw(st.lists(st.integers(lo, hi), min_size=k, max_size=k))
    ]


def dmat(draw, r, c, lo=-16, hi=16, den=8.0, density=None):
    out = []
    for _ in range(r):
        row = dvec(draw, c, lo, hi, den)
        out.append(row)
    if density is not None and r * c > 0:
        mask = draw(
            st.lists(st.booleans(), min_size=r * c, max_size=r * c)
        )
        for i in range(r):
            for j in range(c):
                if not mask[i * c + j] and density < 1.0:
                    out[i][j] = 0.0
    return out


def sym_from_lower(L):
    n = len(L)
    M = np.array(L, dtype=float)
    return (np.tril(M) + np.tril(M, -1).T).tolist()


@st.composite
def var_bounds(draw, n, kinds=("free", "lower", "upper", "boxed", "fixed"), center=None):
    """Variable bounds around ``center`` (default 0) with a drawn kind per variable."""
    lb, ub = [], []
    for j in range(n):
        kind = draw(st.sampled_from(kinds))
        c = 0.0 if center is None else float(center[j])
        if draw(st.integers(0, 3)) == 0:
            # decimal (non-dyadic) offsets: x - (x - bound) need not reproduce such a bound exactly
            lo = c - draw(st.sampled_from(DECIMALS))
            hi = c + draw(st.sampled_from(DECIMALS))
        else:
            lo = c - draw(st.integers(0, 16)) / 8.0
            hi = c + draw(st.integers(0, 16)) / 8.0
        if kind == "free":
            lb.append(-INF), ub.append(INF)
        elif kind == "lower":
            lb.append(lo), ub.append(draw(NO_BOUND))
        elif kind == "upper":
            lb.append(-draw(NO_BOUND)), ub.append(hi)
        elif kind == "boxed":
            if lo == hi:
                hi = lo + 0.125
            lb.append(lo), ub.append(hi)
        else:
            lb.append(c), ub.append(c)
    return lb, ub


@st.composite
def row_bounds(draw, m, kinds=("eq0", "eqnz", "lower", "upper", "ranged"), center=None):
    cl, cu = [], []
    for i in range(m):
        kind = draw(st.sampled_from(kinds))
        c = 0.0 if center is None else float(center[i])
        lo = c - draw(st.integers(0, 16)) / 8.0
        hi = c + draw(st.integers(0, 16)) / 8.0
        if kind == "eq0":
            cl.append(0.0), cu.append(0.0)
        elif kind == "eqnz":
            val = c if c != 0.0 else draw(st.sampled_from([-1.5, -0.25, 0.5, 2.0]))
            cl.append(val), cu.append(val)
        elif kind == "lower":
            cl.append(lo), cu.append(draw(NO_BOUND))
        elif kind == "upper":
            cl.append(-draw(NO_BOUND)), cu.append(hi)
        else:
            if lo == hi:
                hi = lo + 0.125
            cl.append(lo), cu.append(hi)
    return cl, cu


# storage style: canonical (None), a fixed pattern with explicitly stored zeros, or duplicate entries
STYLE = st.sampled_from([None, None, None, None, "zeros", "dup", "int"])
FMT = st.fixed_dictionaries(
    {"jac": st.sampled_from(["coo", "csr", "csc"]), "hess": st.sampled_from(["coo", "csr", "csc"]), "jac_style": STYLE, "hess_style": STYLE}
)


@st.composite
def nlp_spec(draw, max_n=5, max_m=3, min_m=0, nonlinear=True, convex=None, eq0_center=False):
    """General smooth NLP with a reference point x_f used to place bounds.

    convex: True -> Q = LL' + dI (PD);  False/None -> symmetric, possibly indefinite + dI to keep
    things tame.  Row bounds are placed around c(x_f) so that most instances are feasible.
    """
    n = draw(st.integers(1, max_n))
    m = draw(st.integers(min_m, max_m))
    if convex is None:
        convex = draw(st.booleans())
    if convex:
        L = np.tril(np.array(dmat(draw, n, n, -8, 8, 8.0)))
        delta = draw(st.sampled_from([0.5, 1.0, 2.0]))
        Q = (L @ L.T + delta * np.eye(n)).tolist()
    else:
        Q = sym_from_lower(dmat(draw, n, n, -8, 8, 8.0))
        Q = (np.array(Q) + draw(st.sampled_from([0.0, 1.0, 2.0])) * np.eye(n)).tolist()
    q = dvec(draw, n)
    spec = {"n": n, "m": m, "Q": Q, "q": q}
    if nonlinear and draw(st.booleans()):
        spec["w"] = dvec(draw, n, -8, 8)
    if nonlinear and draw(st.booleans()):
        spec["v"] = dvec(draw, n, 0, 16)
    spec["A"] = dmat(draw, m, n)
    if m > 0 and nonlinear and draw(st.booleans()):
        spec["Hc"] = [sym_from_lower(dmat(draw, n, n, -4, 4, 8.0)) for _ in range(m)]
    if m > 0 and nonlinear and draw(st.booleans()):
        spec["u"] = dvec(draw, m, -8, 8)
        spec["T"] = dmat(draw, m, n, -8, 8)
    xf = dvec(draw, n, -8, 8)
    spec["b"] = [0.0] * m
    spec["lb"], spec["ub"] = [-INF] * n, [INF] * n
    spec["cl"], spec["cu"] = [0.0] * m, [0.0] * m
    r = Ref(spec)
    cf = r.c(xf)
    # shift so that c(xf) is a dyadic-ish centre: b := c(xf) makes c(xf)=0 for eq0 rows
    lb, ub = draw(var_bounds(n, center=xf))
    cl, cu = draw(row_bounds(m, center=[0.0] * m))
    spec["b"] = [float(t) for t in cf]
    spec["lb"], spec["ub"], spec["cl"], spec["cu"] = lb, ub, cl, cu
    # eqnz rows: centre 0 -> rhs drawn non-zero; keep feasibility at xf by shifting b
    for i in range(m):
        if cl[i] == cu[i] and cl[i] != 0.0:
            spec["b"][i] = spec["b"][i] - cl[i]
    spec["xf"] = xf
    spec["fmt"] = draw(FMT)
    return spec


@st.composite
def qp_convex_spec(draw, max_n=6, max_m=3):
    """Strictly convex QP, affine rows, feasible point xf, used by C03/C14."""
    n = draw(st.integers(1, max_n))
    m = draw(st.integers(0, min(max_m, n)))
    L = np.tril(np.array(dmat(draw, n, n, -8, 8, 8.0)))
    delta = draw(st.sampled_from([0.5, 1.0, 2.0]))
    Q = (L @ L.T + delta * np.eye(n)).tolist()
    spec = {"n": n, "m": m, "Q": Q, "q": dvec(draw, n), "A": dmat(draw, m, n)}
    xf = dvec(draw, n, -8, 8)
    spec["lb"], spec["ub"] = draw(var_bounds(n, center=xf))
    Axf = (np.array(spec["A"]).reshape(m, n) @ np.array(xf)).tolist() if m else []
    spec["b"] = [0.0] * m
    cl, cu = draw(row_bounds(m, kinds=("eq0", "eqnz", "lower", "upper", "ranged"), center=Axf))
    # equality rows: make them hold at xf through b (A xf - b = rhs)
    for i in range(m):
        if cl[i] == cu[i]:
            spec["b"][i] = Axf[i] - cl[i]
    spec["cl"], spec["cu"] = cl, cu
    spec["xf"] = xf
    spec["fmt"] = draw(FMT)
    return spec


@st.composite
def start_point(draw, spec, allow_none=True, kinds=None):
    """In-bounds x0 (clip of a drawn vector), y0 in {None, 0, random * scale}."""
    n, m = spec["n"], spec["m"]
    lb, ub = np.array(spec["lb"]), np.array(spec["ub"])
    shift = np.array(spec.get("shift", [0.0] * n))
    kind = draw(st.sampled_from(kinds or (["vec", "vec", "vec", "none", "scalar", "corner"] if allow_none else ["vec"])))
    if kind == "corner":
        # every bounded component starts exactly on one of its bounds
        raw = np.array(dvec(draw, n)) + shift
        pick = draw(st.lists(st.booleans(), min_size=n, max_size=n))
        x0 = []
        for j in range(n):
            lo, hi = lb[j], ub[j]
            # the 1e20 / 1e30 "no bound" encodings are not corners: a start at 1e30 is outside every class
            fin_lo, fin_hi = abs(lo) < 1e19, abs(hi) < 1e19
            if fin_lo and (pick[j] or not fin_hi):
                x0.append(float(lo))
            elif fin_hi:
                x0.append(float(hi))
            else:
                x0.append(float(raw[j]))
    elif kind == "none":
        x0 = None
    elif kind == "scalar":
        s = dy(draw)
        lo, hi = float(np.max(lb)), float(np.min(ub))
        if lo <= hi:
            x0 = float(min(max(s, lo), hi))
        else:
            x0 = np.clip(np.full(n, s), lb, ub).tolist()
    else:
        scale = draw(st.sampled_from([0.125, 1.0, 8.0]))
        raw = np.array(dvec(draw, n)) * scale + shift
        x0 = np.clip(raw, lb, ub).tolist()
    if isinstance(x0, list) and draw(st.integers(0, 3)) == 0:
        # a start that is not a dyadic rational (sums and products of the data are then inexact from the first step on,
        # so that a changed order of floating-point operations shows in the bits)
        x0 = np.clip(np.array(x0, dtype=float) * 0.1 + np.array(shift) * 0.9, lb, ub).tolist()
    ykind = draw(st.sampled_from(["none", "zero", "rand", "rand", "big", "decimal"]))
    if ykind == "none" or m == 0:
        y0 = None
    elif ykind == "zero":
        y0 = [0.0] * m
    elif ykind == "decimal":
        y0 = [0.1 * v for v in dvec(draw, m)]
    elif ykind == "rand":
        y0 = dvec(draw, m)
    else:
        y0 = (np.array(dvec(draw, m)) * 1000.0).tolist()
    return {"x0": x0, "y0": y0}


def x0_array(spec, start):
    x0 = start.get("x0")
    n = spec["n"]
    if x0 is None:
        return np.clip(np.zeros(n), np.array(spec["lb"]), np.array(spec["ub"]))
    return np.broadcast_to(np.asarray(x0, dtype=float), (n,)).copy()


def y0_array(spec, start):
    y0 = start.get("y0")
    m = spec["m"]
    if y0 is None:
        return np.zeros(m)
    return np.broadcast_to(np.asarray(y0, dtype=float), (m,)).copy()


# ------------------------------------------------------------------------------------------------
# Params
# ------------------------------------------------------------------------------------------------

NEWTON = ["Simplified", "Full", "ActiveSet", "Globalized"]
STEP_SOLVERS = ["Standard", "Extended", "Symmetric", "Asymmetric"]
LINSOLVERS = ["LU", "GMRES", "MINRES"]
CONTROLLERS = ["Exact", "Fixed", "ResiduumRatio", "DistanceRatio"]
PENALTIES = [
    "Constant",
    "DualNorm",
    "DualEquilibration",
    "ParetoDecrease",
    "ObjectiveFilter",
    "LagrangianFilter",
]
ACTIVE_SETS = ["Standard", "Explicit", "SmallestActiveSet", "LargestActiveSet"]


@st.composite
def params_dict(
    draw,
    newton=NEWTON,
    step_solvers=STEP_SOLVERS,
    linsolvers=LINSOLVERS,
    controllers=CONTROLLERS,
    penalties=PENALTIES,
    active_sets=ACTIVE_SETS,
    numeric=True,
    default_bias=True,
    rare=True,
):
    """Algorithmic options only (no limits, no observers, no scaling)."""
    p = {}
    p["newton_type"] = draw(st.sampled_from(newton))
    p["step_solver_type"] = draw(st.sampled_from(step_solvers))
    ls = draw(st.sampled_from(linsolvers))
    if ls == "MINRES" and p["step_solver_type"] != "Symmetric":
        # MINRES is documented to work only with the symmetric step solver
        ls = draw(st.sampled_from([l for l in linsolvers if l != "MINRES"] or ["LU"]))
    p["linear_solver_type"] = ls
    p["step_control_type"] = draw(st.sampled_from(controllers))
    p["penalty_update"] = draw(st.sampled_from(penalties))
    a = draw(st.sampled_from(active_sets))
    p["active_set_type"] = a
    if a == "Explicit":
        p["active_set_tau"] = draw(st.sampled_from([1e-3, 0.1, 1.0, 10.0]))
    if numeric:
        p["rho"] = draw(st.sampled_from([1e-8, 1e-2, 1.0, 100.0, 1e-10]))
        p["lamb_init"] = draw(st.sampled_from([1e-3, 1.0, 1.0, 1e3]))
        p["lamb_inc"] = draw(st.sampled_from([2.0, 4.0]))
        if rare and draw(st.integers(0, 2)) == 0:
            # rarely changed knobs (defaults stay dominant); the oracles read tolerances from Params
            knobs = {
                "opt_tol": [1e-4, 1e-8],
                "newton_tol": [1e-6, 1e-10],
                "local_infeas_tol": [1e-6],
                "theta_max": [0.5, 0.99],
                "theta_ref": [0.25, 0.8],
                "lamb_red": [0.25, 0.9],
                "lamb_min": [1e-6, 1e-3],
                "K_P": [0.0, 0.5],
                "K_I": [0.0, 0.05],
                "lamb_term": [1e-4],
            }
            for name in draw(st.lists(st.sampled_from(sorted(knobs)), min_size=1, max_size=3, unique=True)):
                p[name] = draw(st.sampled_from(knobs[name]))
    return p


def scaling_dict_strategy(spec, kinds=("none", "custom", "nominal", "gradjac", "kkt"), wmax=6, omax=3):
    n, m = spec["n"], spec["m"]

    @st.composite
    def _s(draw):
        kind = draw(st.sampled_from(kinds))
        if kind == "none":
            return {"kind": "none"}
        if kind == "custom":
            # each of the three weight groups is entirely zero in a third of the cases
            # (objective-only, variables-only, rows-only scalings are classes of their own)
            zv, zc, zo = (draw(st.integers(0, 2)) == 0 for _ in range(3))
            return {
                "kind": "custom",
                "vw": [0] * n if zv else draw(st.lists(st.integers(-wmax, wmax), min_size=n, max_size=n)),
                "cw": [0] * m if zc else draw(st.lists(st.integers(-wmax, wmax), min_size=m, max_size=m)),
                "ow": 0 if zo else draw(st.integers(-omax, omax)),
            }
        # automatic scalings need a primal (and dual) point
        sp = dvec(draw, n, -16, 16, 4.0)
        sd = dvec(draw, m, -16, 16, 4.0)
        if draw(st.integers(0, 2)) == 0:
            # exact zeros in the scaling point (a nominal value of 0 is legal: frexp(0) has exponent 0)
            for v in (sp, sd):
                for t in range(len(v)):
                    if draw(st.booleans()):
                        v[t] = 0.0
        return {"kind": kind, "primal": sp, "dual": sd}

    return _s()


def build_params(pdict, scaling=None, **extra):
    """Params object from the plain dictionaries of a case."""
    from pygradflow.params import Params, ScalingType
    from pygradflow.scale import Scaling

    kw = dict(pdict)
    kw.update(extra)
    if scaling and scaling.get("kind", "none") != "none":
        kind = scaling["kind"]
        if kind == "custom":
            kw["scaling_type"] = ScalingType.Custom
            wd = np.dtype(scaling.get("wdtype", "int64"))
            vw_buf, cw_buf = np.array(scaling["vw"], dtype=wd), np.array(scaling["cw"], dtype=wd)
            kw["scaling"] = Scaling(vw_buf, cw_buf, int(scaling["ow"]))
            # the caller's own weight arrays (a caller may re-use such buffers for the next problem)
            kw["scaling"]._vf_caller_buffers = (vw_buf, cw_buf)
        else:
            kw["scaling_type"] = {
                "nominal": ScalingType.Nominal,
                "gradjac": ScalingType.GradJac,
                "kkt": ScalingType.KKT,
            }[kind]
            kw["scaling_primal"] = np.array(scaling["primal"], dtype=float)
            kw["scaling_dual"] = np.array(scaling["dual"], dtype=float)
    return Params(**kw)


def weights_of(solver_or_transform, spec):
    """Integer weights actually used (read from the transformation)."""
    tr = getattr(solver_or_transform, "transform", solver_or_transform)
    sc = tr.scaling
    n, m = spec["n"], spec["m"]
    if sc is None:
        return np.zeros(n, dtype=int), np.zeros(m, dtype=int), 0
    ow = sc.obj_weight
    ow = int(np.asarray(ow).reshape(-1)[0]) if np.ndim(ow) else int(ow)
    return np.asarray(sc.var_weights, dtype=int), np.asarray(sc.cons_weights, dtype=int), ow


# ------------------------------------------------------------------------------------------------
# Special families
# ------------------------------------------------------------------------------------------------


@st.composite
def infeasible_spec(draw, max_n=4):
    """Problems with no feasible point (three constructions)."""
    n = draw(st.integers(1, max_n))
    kind = draw(st.sampled_from(["inconsistent_rows", "sphere_plus_one", "unreachable_in_box"]))
    L = np.tril(np.array(dmat(draw, n, n, -8, 8, 8.0)))
    Q = (L @ L.T + np.eye(n)).tolist()
    spec = {"n": n, "Q": Q, "q": dvec(draw, n), "family": "infeasible:" + kind}
    if kind == "inconsistent_rows":
        a = dvec(draw, n)
        if not any(a):
            a[0] = 1.0
        gap = draw(st.sampled_from([0.5, 1.0, 4.0]))
        extra = draw(st.integers(0, 1))
        spec["m"] = 2 + extra
        spec["A"] = [a, a] + ([dvec(draw, n)] if extra else [])
        spec["b"] = [0.0] * spec["m"]
        spec["cl"] = [gap, -gap] + ([-INF] if extra else [])
        spec["cu"] = [gap, -gap] + ([2.0] if extra else [])
        spec["lb"], spec["ub"] = draw(var_bounds(n, kinds=("free", "lower", "boxed")))
    elif kind == "sphere_plus_one":
        spec["m"] = 1
        spec["A"] = [[0.0] * n]
        spec["Hc"] = [np.eye(n).tolist()]
        spec["b"] = [-draw(st.sampled_from([0.5, 1.0, 3.0]))]
        rk = draw(st.sampled_from(["eq0", "upper"]))
        spec["cl"] = [0.0 if rk == "eq0" else -INF]
        spec["cu"] = [0.0]
        spec["lb"], spec["ub"] = draw(var_bounds(n, kinds=("free", "lower", "upper", "boxed")))
    else:
        a = dvec(draw, n, 1, 16)
        spec["m"] = 1
        spec["A"] = [a]
        spec["b"] = [0.0]
        lb = [-(draw(st.integers(0, 8)) / 8.0) for _ in range(n)]
        ub = [(draw(st.integers(0, 8)) / 8.0) for _ in range(n)]
        reach = float(np.dot(a, ub))
        rk = draw(st.sampled_from(["lower", "eqnz", "ranged"]))
        lo = reach + draw(st.sampled_from([0.5, 1.0, 8.0]))
        spec["cl"] = [lo]
        spec["cu"] = [INF if rk == "lower" else (lo if rk == "eqnz" else lo + 1.0)]
        spec["lb"], spec["ub"] = lb, ub
    spec["fmt"] = draw(FMT)
    return spec


@st.composite
def unbounded_spec(draw, max_n=4):
    """Objective unbounded below along a feasible ray."""
    n = draw(st.integers(1, max_n))
    kind = draw(st.sampled_from(["linear", "concave"]))
    q = dvec(draw, n)
    if not any(q):
        q[0] = -1.0
    spec = {"n": n, "q": q, "family": "unbounded:" + kind}
    if kind == "linear":
        spec["Q"] = np.zeros((n, n)).tolist()
    else:
        d = [-(draw(st.integers(0, 8)) / 8.0) for _ in range(n)]
        spec["Q"] = np.diag(d).tolist()
    # bounds never block the descent direction -q
    lb, ub = [], []
    for j in range(n):
        if q[j] > 0:  # x_j -> -inf
            lb.append(-INF)
            ub.append(draw(st.sampled_from([INF, 1.0, 4.0])))
        elif q[j] < 0:
            lb.append(draw(st.sampled_from([-INF, -1.0, -4.0])))
            ub.append(INF)
        else:
            lb.append(draw(st.sampled_from([-INF, -1.0])))
            ub.append(draw(st.sampled_from([INF, 1.0])))
    spec["lb"], spec["ub"] = lb, ub
    m = draw(st.integers(0, 1))
    spec["m"] = m
    if m:
        # a row orthogonal-ish to the ray: a'x <= big one-sided in the harmless direction
        a = [(-1.0 if t > 0 else (1.0 if t < 0 else 0.0)) * draw(st.integers(0, 8)) / 8.0 for t in q]
        spec["A"] = [a]
        spec["b"] = [0.0]
        spec["cl"] = [draw(st.sampled_from([-1.0, 0.0, -INF]))]
        spec["cu"] = [INF]
        if spec["cl"][0] == -INF:
            spec["cl"] = [-2.0]
    else:
        spec["A"], spec["b"], spec["cl"], spec["cu"] = [], [], [], []
    spec["fmt"] = draw(FMT)
    return spec


@st.composite
def degenerate_spec(draw, max_n=4, kinds=("all_fixed", "n1", "m0", "duplicate_rows", "lp_box", "zero_row", "row_on_bound")):
    kind = draw(st.sampled_from(list(kinds)))
    if kind == "n1":
        base = draw(nlp_spec(max_n=1, max_m=2))
    elif kind == "m0":
        base = draw(nlp_spec(max_n=max_n, max_m=0))
    else:
        base = draw(nlp_spec(max_n=max_n, max_m=2, min_m=1 if kind in ("duplicate_rows", "zero_row", "row_on_bound") else 0, nonlinear=draw(st.booleans())))
    n, m = base["n"], base["m"]
    if kind == "all_fixed":
        xf = base["xf"]
        base["lb"], base["ub"] = list(xf), list(xf)
    elif kind == "duplicate_rows" and m >= 1:
        for k in ("A", "b", "cl", "cu", "u", "T", "Hc"):
            if k in base and base[k] is not None:
                base[k] = list(base[k]) + [base[k][0]]
        base["m"] = m + 1
    elif kind == "lp_box":
        base["Q"] = np.zeros((n, n)).tolist()
        base.pop("w", None), base.pop("v", None)
        lb, ub = draw(var_bounds(n, kinds=("boxed", "fixed"), center=base["xf"]))
        base["lb"], base["ub"] = lb, ub
    elif kind == "zero_row" and m >= 1:
        base["A"][0] = [0.0] * n
        base.pop("Hc", None), base.pop("u", None), base.pop("T", None)
        # 0 = c_0(x) - b_0 ; keep it feasible: bounds around -b_0
        b0 = Ref(base).c(np.zeros(n))[0]
        if base["cl"][0] == base["cu"][0]:
            base["cl"][0] = base["cu"][0] = float(b0)
        else:
            base["cl"][0] = float(b0) - 1.0 if np.isfinite(base["cl"][0]) else -INF
            base["cu"][0] = float(b0) + 1.0 if np.isfinite(base["cu"][0]) else INF
    elif kind == "row_on_bound" and m >= 1:
        # the only row is an equation in one variable whose solution is exactly that variable's bound: a step that
        # clips the variable onto the bound makes the constraint value exactly 0.0
        j = draw(st.integers(0, n - 1))
        a = draw(st.sampled_from([0.5, 1.0, 2.0, -1.0]))
        v = draw(st.integers(-16, 16)) / 8.0
        width = draw(st.sampled_from([None, 0.5, 4.0]))
        for k in ("Hc", "u", "T"):
            base.pop(k, None)
        row = [0.0] * n
        row[j] = a
        base["A"], base["b"], base["m"] = [row], [0.0], 1
        base["cl"] = base["cu"] = [a * v]
        lb, ub = list(base["lb"]), list(base["ub"])
        if draw(st.booleans()):
            ub[j], lb[j] = v, (-INF if width is None else v - width)
        else:
            lb[j], ub[j] = v, (INF if width is None else v + width)
        base["lb"], base["ub"] = lb, ub
        xf = np.clip(np.array(base["xf"], dtype=float), lb, ub)
        xf[j] = v
        base["xf"] = xf.tolist()
    base["family"] = "degenerate:" + kind
    return base


@st.composite
def patternvar_spec(draw, max_n=4):
    """Jacobian entries J_ij = h_ij * x_j (and Hessian entries) vanish exactly where x_j = 0, and some
    variables have the bound 0 with the objective pushing against it: the sparsity pattern returned by
    the callbacks changes along the run and at the solution, often with the same number of entries."""
    n = draw(st.integers(2, max_n))
    m = draw(st.integers(1, 2))
    L = np.tril(np.array(dmat(draw, n, n, -4, 4, 8.0)))
    Q = (L @ L.T + np.eye(n)).tolist()
    q = [draw(st.sampled_from([-2.0, -0.5, 0.5, 1.0, 3.0])) for _ in range(n)]
    Hc = [np.diag([draw(st.sampled_from([-2.0, -0.5, 1.0, 1.0, 3.0])) for _ in range(n)]).tolist() for _ in range(m)]
    lb, ub = [], []
    for j in range(n):
        k = draw(st.sampled_from(["zero_lb", "zero_lb", "zero_ub", "free", "boxed0"]))
        if k == "zero_lb":
            lb.append(0.0), ub.append(draw(st.sampled_from([INF, 2.0])))
        elif k == "zero_ub":
            lb.append(draw(st.sampled_from([-INF, -2.0]))), ub.append(0.0)
        elif k == "boxed0":
            lb.append(-1.0), ub.append(1.0)
        else:
            lb.append(-INF), ub.append(INF)
    spec = {"n": n, "m": m, "Q": Q, "q": q, "A": [[0.0] * n for _ in range(m)], "Hc": Hc, "b": [0.0] * m,
            "lb": lb, "ub": ub, "cl": [0.0] * m, "cu": [0.0] * m}
    xf = [min(max(draw(st.sampled_from([-1.0, 0.0, 0.0, 0.5, 1.0])), lb[j]), ub[j]) for j in range(n)]
    cf = Ref(spec).c(np.array(xf))
    cl, cu = draw(row_bounds(m, kinds=("eq0", "lower", "upper", "ranged"), center=[0.0] * m))
    spec["b"] = [float(t) for t in cf]
    spec["cl"], spec["cu"] = cl, cu
    spec["xf"] = xf
    spec["fmt"] = draw(FMT)
    spec["family"] = "patternvar"
    return spec


@st.composite
def any_spec(draw, families=("nlp", "qp", "degenerate"), max_n=5, max_m=3, magnify=True):
    fam = draw(st.sampled_from(families))
    if fam == "nlp":
        s = draw(nlp_spec(max_n=max_n, max_m=max_m))
        s.setdefault("family", "nlp")
    elif fam == "qp":
        s = draw(qp_convex_spec(max_n=max_n, max_m=max_m))
        s.setdefault("family", "qp")
    elif fam == "degenerate":
        s = draw(degenerate_spec(max_n=max_n))
    elif fam == "infeasible":
        s = draw(infeasible_spec(max_n=min(max_n, 4)))
    elif fam == "unbounded":
        s = draw(unbounded_spec(max_n=min(max_n, 4)))
    elif fam == "patternvar":
        s = draw(patternvar_spec(max_n=min(max_n, 4)))
    elif fam == "convexbox":
        # convex (possibly only semidefinite) coupled QP on a box, no rows: from a corner start several variables are
        # pinned at once and some of them must be released later because a coupled variable moves
        n = draw(st.integers(2, min(max(max_n, 2), 4)))  # noqa
        if draw(st.integers(0, 3)) == 0:
            Q = np.zeros((n, n))  # an LP on a box: every variable ends on a bound, often all of them in one step
        else:
            B = np.array([[draw(st.integers(-2, 2)) / 2.0 for _ in range(n)] for _ in range(n)])
            Q = B.T @ B + np.diag([draw(st.sampled_from([0.0, 0.5, 1.0])) for _ in range(n)])
        lb, ub = [], []
        for _ in range(n):
            k = draw(st.sampled_from(["free", "lower", "upper", "boxed", "boxed"]))
            lo = draw(st.integers(-24, 8)) / 8.0
            lb.append(lo if k in ("lower", "boxed") else -np.inf)
            ub.append(lo + draw(st.integers(1, 32)) / 8.0 if k in ("upper", "boxed") else np.inf)
        s = {"n": n, "m": 0, "Q": Q.tolist(), "q": [4.0 * v for v in dvec(draw, n)], "A": [], "b": [], "cl": [], "cu": [],
             "lb": lb, "ub": ub, "fmt": draw(FMT), "family": "convexbox"}
        return s
    elif fam == "concavebox":
        # concave objective on a box, no rows: minimisers sit in corners, Newton steps at a bound may point
        # out of the box although the bound is not active for the projection (1 + dt f'' < 0)
        n = draw(st.integers(1, min(max_n, 3)))
        d = [-(draw(st.integers(2, 16)) / 8.0) for _ in range(n)]
        Q = np.diag(d)
        for i in range(n):
            for j in range(i):
                Q[i, j] = Q[j, i] = draw(st.integers(-2, 2)) / 8.0
        lo = [draw(st.integers(-24, 0)) / 8.0 for _ in range(n)]
        s = {"n": n, "m": 0, "Q": Q.tolist(), "q": dvec(draw, n), "A": [], "b": [], "cl": [], "cu": [],
             "lb": lo, "ub": [a + draw(st.integers(1, 24)) / 8.0 for a in lo], "fmt": draw(FMT), "family": "concavebox"}
        s["xf"] = list(s["lb"])
        return s
    elif fam == "intbox":
        # every variable boxed by integer-valued bounds, handed over as integer-typed arrays
        s = draw(nlp_spec(max_n=max_n, max_m=max_m))
        n = s["n"]
        lo = [draw(st.integers(-3, 3)) for _ in range(n)]
        s["lb"] = [float(v) for v in lo]
        s["ub"] = [float(v + draw(st.integers(0, 6))) for v in lo]
        s["bounds_dtype"] = "int"
        s["xf"] = [float(min(max(round(t), a), b)) for t, a, b in zip(s["xf"], s["lb"], s["ub"])]
        s["family"] = "intbox"
        return s
    else:
        raise ValueError(fam)
    if magnify and draw(st.integers(0, 3)) == 0:
        s = draw(magnified(s))
    return s


@st.composite
def magnified(draw, spec):
    """Translate variables / rows so that bounds and row bounds have large magnitude (1e3..1e6)
    while the problem stays the same well-conditioned one (exact: all data are dyadic)."""
    spec = dict(spec)
    n, m = spec["n"], spec["m"]
    sh = [draw(st.sampled_from([0.0, 0.0, 1000.0, -4096.0, 1.0e6, -250000.0])) for _ in range(n)]
    rs = [draw(st.sampled_from([0.0, 0.0, 1000.0, -200000.0, 1.0e6])) for _ in range(m)]
    spec["shift"] = sh
    spec["rshift"] = rs
    spec["lb"] = [l + t for l, t in zip(spec["lb"], sh)]
    spec["ub"] = [u + t for u, t in zip(spec["ub"], sh)]
    spec["cl"] = [l + t for l, t in zip(spec["cl"], rs)]
    spec["cu"] = [u + t for u, t in zip(spec["cu"], rs)]
    if "xf" in spec:
        spec["xf"] = [a + t for a, t in zip(spec["xf"], sh)]
    spec["family"] = spec.get("family", "nlp") + "+magnified"
    return spec


@st.composite
def banded_qp_spec(draw, nmin=30, nmax=200):
    """Large strictly convex QP: tridiagonal diagonally dominant Q, banded full-row-rank A."""
    n = draw(st.integers(nmin, nmax))
    m = draw(st.integers(0, n // 3))
    d = [1.0 + draw(st.integers(0, 16)) / 8.0 for _ in range(n)]
    e = [draw(st.integers(-3, 3)) / 8.0 for _ in range(n - 1)]
    Q = np.diag(d) + np.diag(e, 1) + np.diag(e, -1)
    q = [draw(st.integers(-16, 16)) / 8.0 for _ in range(n)]
    A = np.zeros((m, n))
    for i in range(m):
        k = 3 * i
        A[i, k] = draw(st.sampled_from([-2.0, -1.0, 1.0, 2.0]))
        if k + 1 < n:
            A[i, k + 1] = draw(st.integers(-8, 8)) / 8.0
        if k + 2 < n:
            A[i, k + 2] = draw(st.integers(-8, 8)) / 8.0
    xf = [draw(st.integers(-8, 8)) / 8.0 for _ in range(n)]
    spec = {"n": n, "m": m, "Q": Q.tolist(), "q": q, "A": A.tolist(), "family": "banded"}
    spec["lb"], spec["ub"] = draw(var_bounds(n, kinds=("free", "free", "lower", "upper", "boxed"), center=xf))
    Axf = (A @ np.array(xf)).tolist() if m else []
    cl, cu = draw(row_bounds(m, center=Axf))
    spec["b"] = [0.0] * m
    for i in range(m):
        if cl[i] == cu[i]:
            spec["b"][i] = Axf[i] - cl[i]
    spec["cl"], spec["cu"] = cl, cu
    spec["xf"] = xf
    spec["fmt"] = draw(FMT)
    return spec
