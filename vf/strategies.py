"""Hypothesis strategies: problem specs (by family), start points, Params dictionaries.

All draws produce plain JSON-able data; every random choice is a Hypothesis draw.
Data entries are small dyadic rationals (integer / 8) -- good shrinking, exact arithmetic.
"""

import numpy as np
from hypothesis import strategies as st

from .spec import INF, Ref

SMALL = st.integers(-16, 16)


def dy(draw, lo=-16, hi=16, den=8.0):
    return draw(st.integers(lo, hi)) / den


def dvec(draw, k, lo=-16, hi=16, den=8.0):
    if k == 0:
        return []
    return [
        v / den
        for v in draw(st.lists(st.integers(lo, hi), min_size=k, max_size=k))
    ]


def dmat(draw, r, c, lo=-16, hi=16, den=8.0, density=None):
    out = []
    for _ in range(r):
        row = dvec(draw, c, lo, hi, den)
        out.append(row)
    if density is not None and r * c > 0:
        mask = draw(
            st.lists(st.booleans(), min_size=r * c, max_size=r * c)
        )
        for i in range(r):
            for j in range(c):
                if not mask[i * c + j] and density < 1.0:
                    out[i][j] = 0.0
    return out


def sym_from_lower(L):
    n = len(L)
    M = np.array(L, dtype=float)
    return (np.tril(M) + np.tril(M, -1).T).tolist()


@st.composite
def var_bounds(draw, n, kinds=("free", "lower", "upper", "boxed", "fixed"), center=None):
    """Variable bounds around ``center`` (default 0) with a drawn kind per variable."""
    lb, ub = [], []
    for j in range(n):
        kind = draw(st.sampled_from(kinds))
        c = 0.0 if center is None else float(center[j])
        lo = c - draw(st.integers(0, 16)) / 8.0
        hi = c + draw(st.integers(0, 16)) / 8.0
        if kind == "free":
            lb.append(-INF), ub.append(INF)
        elif kind == "lower":
            lb.append(lo), ub.append(INF)
        elif kind == "upper":
            lb.append(-INF), ub.append(hi)
        elif kind == "boxed":
            if lo == hi:
                hi = lo + 0.125
            lb.append(lo), ub.append(hi)
        else:
            lb.append(c), ub.append(c)
    return lb, ub


@st.composite
def row_bounds(draw, m, kinds=("eq0", "eqnz", "lower", "upper", "ranged"), center=None):
    cl, cu = [], []
    for i in range(m):
        kind = draw(st.sampled_from(kinds))
        c = 0.0 if center is None else float(center[i])
        lo = c - draw(st.integers(0, 16)) / 8.0
        hi = c + draw(st.integers(0, 16)) / 8.0
        if kind == "eq0":
            cl.append(0.0), cu.append(0.0)
        elif kind == "eqnz":
            val = c if c != 0.0 else draw(st.sampled_from([-1.5, -0.25, 0.5, 2.0]))
            cl.append(val), cu.append(val)
        elif kind == "lower":
            cl.append(lo), cu.append(INF)
        elif kind == "upper":
            cl.append(-INF), cu.append(hi)
        else:
            if lo == hi:
                hi = lo + 0.125
            cl.append(lo), cu.append(hi)
    return cl, cu


FMT = st.fixed_dictionaries(
    {"jac": st.sampled_from(["coo", "csr", "csc"]), "hess": st.sampled_from(["coo", "csr", "csc"])}
)


@st.composite
def nlp_spec(draw, max_n=5, max_m=3, min_m=0, nonlinear=True, convex=None, eq0_center=False):
    """General smooth NLP with a reference point x_f used to place bounds.

    convex: True -> Q = LL' + dI (PD);  False/None -> symmetric, possibly indefinite + dI to keep
    things tame.  Row bounds are placed around c(x_f) so that most instances are feasible.
    """
    n = draw(st.integers(1, max_n))
    m = draw(st.integers(min_m, max_m))
    if convex is None:
        convex = draw(st.booleans())
    if convex:
        L = np.tril(np.array(dmat(draw, n, n, -8, 8, 8.0)))
        delta = draw(st.sampled_from([0.5, 1.0, 2.0]))
        Q = (L @ L.T + delta * np.eye(n)).tolist()
    else:
        Q = sym_from_lower(dmat(draw, n, n, -8, 8, 8.0))
        Q = (np.array(Q) + draw(st.sampled_from([0.0, 1.0, 2.0])) * np.eye(n)).tolist()
    q = dvec(draw, n)
    spec = {"n": n, "m": m, "Q": Q, "q": q}
    if nonlinear and draw(st.booleans()):
        spec["w"] = dvec(draw, n, -8, 8)
    if nonlinear and draw(st.booleans()):
        spec["v"] = dvec(draw, n, 0, 16)
    spec["A"] = dmat(draw, m, n)
    if m > 0 and nonlinear and draw(st.booleans()):
        spec["Hc"] = [sym_from_lower(dmat(draw, n, n, -4, 4, 8.0)) for _ in range(m)]
    if m > 0 and nonlinear and draw(st.booleans()):
        spec["u"] = dvec(draw, m, -8, 8)
        spec["T"] = dmat(draw, m, n, -8, 8)
    xf = dvec(draw, n, -8, 8)
    spec["b"] = [0.0] * m
    spec["lb"], spec["ub"] = [-INF] * n, [INF] * n
    spec["cl"], spec["cu"] = [0.0] * m, [0.0] * m
    r = Ref(spec)
    cf = r.c(xf)
    # shift so that c(xf) is a dyadic-ish centre: b := c(xf) makes c(xf)=0 for eq0 rows
    lb, ub = draw(var_bounds(n, center=xf))
    cl, cu = draw(row_bounds(m, center=[0.0] * m))
    spec["b"] = [float(t) for t in cf]
    spec["lb"], spec["ub"], spec["cl"], spec["cu"] = lb, ub, cl, cu
    # eqnz rows: centre 0 -> rhs drawn non-zero; keep feasibility at xf by shifting b
    for i in range(m):
        if cl[i] == cu[i] and cl[i] != 0.0:
            spec["b"][i] = spec["b"][i] - cl[i]
    spec["xf"] = xf
    spec["fmt"] = draw(FMT)
    return spec


@st.composite
def qp_convex_spec(draw, max_n=6, max_m=3):
    """Strictly convex QP, affine rows, feasible point xf, used by C03/C14."""
    n = draw(st.integers(1, max_n))
    m = draw(st.integers(0, min(max_m, n)))
    L = np.tril(np.array(dmat(draw, n, n, -8, 8, 8.0)))
    delta = draw(st.sampled_from([0.5, 1.0, 2.0]))
    Q = (L @ L.T + delta * np.eye(n)).tolist()
    spec = {"n": n, "m": m, "Q": Q, "q": dvec(draw, n), "A": dmat(draw, m, n)}
    xf = dvec(draw, n, -8, 8)
    spec["lb"], spec["ub"] = draw(var_bounds(n, center=xf))
    Axf = (np.array(spec["A"]).reshape(m, n) @ np.array(xf)).tolist() if m else []
    spec["b"] = [0.0] * m
    cl, cu = draw(row_bounds(m, kinds=("eq0", "eqnz", "lower", "upper", "ranged"), center=Axf))
    # eq0 rows: make them hold at xf through b
    for i in range(m):
        if cl[i] == 0.0 and cu[i] == 0.0:
            spec["b"][i] = Axf[i]
    spec["cl"], spec["cu"] = cl, cu
    spec["xf"] = xf
    spec["fmt"] = draw(FMT)
    return spec


@st.composite
def start_point(draw, spec, allow_none=True):
    """In-bounds x0 (clip of a drawn vector), y0 in {None, 0, random * scale}."""
    n, m = spec["n"], spec["m"]
    lb, ub = np.array(spec["lb"]), np.array(spec["ub"])
    kind = draw(st.sampled_from(["vec", "vec", "vec", "none", "scalar"] if allow_none else ["vec"]))
    if kind == "none":
        x0 = None
    elif kind == "scalar":
        s = dy(draw)
        lo, hi = float(np.max(lb)), float(np.min(ub))
        if lo <= hi:
            x0 = float(min(max(s, lo), hi))
        else:
            x0 = np.clip(np.full(n, s), lb, ub).tolist()
    else:
        scale = draw(st.sampled_from([0.125, 1.0, 8.0]))
        raw = np.array(dvec(draw, n)) * scale
        x0 = np.clip(raw, lb, ub).tolist()
    ykind = draw(st.sampled_from(["none", "zero", "rand", "rand", "big"]))
    if ykind == "none" or m == 0:
        y0 = None
    elif ykind == "zero":
        y0 = [0.0] * m
    elif ykind == "rand":
        y0 = dvec(draw, m)
    else:
        y0 = (np.array(dvec(draw, m)) * 1000.0).tolist()
    return {"x0": x0, "y0": y0}


def x0_array(spec, start):
    x0 = start.get("x0")
    n = spec["n"]
    if x0 is None:
        return np.clip(np.zeros(n), np.array(spec["lb"]), np.array(spec["ub"]))
    return np.broadcast_to(np.asarray(x0, dtype=float), (n,)).copy()


def y0_array(spec, start):
    y0 = start.get("y0")
    m = spec["m"]
    if y0 is None:
        return np.zeros(m)
    return np.broadcast_to(np.asarray(y0, dtype=float), (m,)).copy()


# ------------------------------------------------------------------------------------------------
# Params
# ------------------------------------------------------------------------------------------------

NEWTON = ["Simplified", "Full", "ActiveSet", "Globalized"]
STEP_SOLVERS = ["Standard", "Extended", "Symmetric", "Asymmetric"]
LINSOLVERS = ["LU", "GMRES", "MINRES"]
CONTROLLERS = ["Exact", "Fixed", "ResiduumRatio", "DistanceRatio"]
PENALTIES = [
    "Constant",
    "DualNorm",
    "DualEquilibration",
    "ParetoDecrease",
    "ObjectiveFilter",
    "LagrangianFilter",
]
ACTIVE_SETS = ["Standard", "Explicit", "SmallestActiveSet", "LargestActiveSet"]


@st.composite
def params_dict(
    draw,
    newton=NEWTON,
    step_solvers=STEP_SOLVERS,
    linsolvers=LINSOLVERS,
    controllers=CONTROLLERS,
    penalties=PENALTIES,
    active_sets=ACTIVE_SETS,
    numeric=True,
    default_bias=True,
):
    """Algorithmic options only (no limits, no observers, no scaling)."""
    p = {}
    p["newton_type"] = draw(st.sampled_from(newton))
    p["step_solver_type"] = draw(st.sampled_from(step_solvers))
    ls = draw(st.sampled_from(linsolvers))
    if ls == "MINRES" and p["step_solver_type"] != "Symmetric":
        # MINRES is documented to work only with the symmetric step solver
        ls = draw(st.sampled_from([l for l in linsolvers if l != "MINRES"] or ["LU"]))
    p["linear_solver_type"] = ls
    p["step_control_type"] = draw(st.sampled_from(controllers))
    p["penalty_update"] = draw(st.sampled_from(penalties))
    a = draw(st.sampled_from(active_sets))
    p["active_set_type"] = a
    if a == "Explicit":
        p["active_set_tau"] = draw(st.sampled_from([1e-3, 0.1, 1.0, 10.0]))
    if numeric:
        p["rho"] = draw(st.sampled_from([1e-8, 1e-2, 1.0, 100.0]))
        p["lamb_init"] = draw(st.sampled_from([1e-3, 1.0, 1.0, 1e3]))
        p["lamb_inc"] = draw(st.sampled_from([2.0, 4.0]))
    return p


def scaling_dict_strategy(spec, kinds=("none", "custom", "nominal", "gradjac", "kkt"), wmax=6, omax=3):
    n, m = spec["n"], spec["m"]

    @st.composite
    def _s(draw):
        kind = draw(st.sampled_from(kinds))
        if kind == "none":
            return {"kind": "none"}
        if kind == "custom":
            return {
                "kind": "custom",
                "vw": draw(st.lists(st.integers(-wmax, wmax), min_size=n, max_size=n)),
                "cw": draw(st.lists(st.integers(-wmax, wmax), min_size=m, max_size=m)),
                "ow": draw(st.integers(-omax, omax)),
            }
        # automatic scalings need a primal (and dual) point
        sp = dvec(draw, n, -16, 16, 4.0)
        sd = dvec(draw, m, -16, 16, 4.0)
        return {"kind": kind, "primal": sp, "dual": sd}

    return _s()


def build_params(pdict, scaling=None, **extra):
    """Params object from the plain dictionaries of a case."""
    from pygradflow.params import Params, ScalingType
    from pygradflow.scale import Scaling

    kw = dict(pdict)
    kw.update(extra)
    if scaling and scaling.get("kind", "none") != "none":
        kind = scaling["kind"]
        if kind == "custom":
            kw["scaling_type"] = ScalingType.Custom
            kw["scaling"] = Scaling(
                np.array(scaling["vw"], dtype=int),
                np.array(scaling["cw"], dtype=int),
                int(scaling["ow"]),
            )
        else:
            kw["scaling_type"] = {
                "nominal": ScalingType.Nominal,
                "gradjac": ScalingType.GradJac,
                "kkt": ScalingType.KKT,
            }[kind]
            kw["scaling_primal"] = np.array(scaling["primal"], dtype=float)
            kw["scaling_dual"] = np.array(scaling["dual"], dtype=float)
    return Params(**kw)


def weights_of(solver_or_transform, spec):
    """Integer weights actually used (read from the transformation)."""
    tr = getattr(solver_or_transform, "transform", solver_or_transform)
    sc = tr.scaling
    n, m = spec["n"], spec["m"]
    if sc is None:
        return np.zeros(n, dtype=int), np.zeros(m, dtype=int), 0
    ow = sc.obj_weight
    ow = int(np.asarray(ow).reshape(-1)[0]) if np.ndim(ow) else int(ow)
    return np.asarray(sc.var_weights, dtype=int), np.asarray(sc.cons_weights, dtype=int), ow
