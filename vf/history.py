"""Helpers over a recorded trial history (shared by C12, C15, C16, C07, C08)."""

import numpy as np


def adoptions(trials, result=None, solver=None):
    """adopted[t] == True iff the solver's current iterate changed to trial t's output.

    For t < T-1: the next trial starts from trial t's returned iterate object (and that object
    differs from the input).  For the last trial it is decided from the result: which of the two
    candidates the returned (x, y) equals (None when both coincide or nothing was returned).
    """
    T = len(trials)
    out = []
    for t in range(T):
        tr = trials[t]
        if tr.it_out is None:  # trial ended by exception
            out.append(False)
            continue
        changed = tr.it_out is not tr.it_in
        if t + 1 < T:
            out.append(bool(changed and trials[t + 1].it_in is tr.it_out))
        else:
            if result is None or solver is None or not changed:
                out.append(False if not changed else None)
            else:
                xo, yo, _ = solver.transform.restore_sol(tr.it_out.x, tr.it_out.y, np.zeros_like(tr.it_out.x))
                xi, yi, _ = solver.transform.restore_sol(tr.it_in.x, tr.it_in.y, np.zeros_like(tr.it_in.x))
                eq_o = np.array_equal(result.x, xo) and np.array_equal(result.y, yo)
                eq_i = np.array_equal(result.x, xi) and np.array_equal(result.y, yi)
                if eq_o and not eq_i:
                    out.append(True)
                elif eq_i and not eq_o:
                    out.append(False)
                else:
                    out.append(None)
    return out


def last_adopted_iterate(trials, adopted):
    it = trials[0].it_in if trials else None
    for tr, a in zip(trials, adopted):
        if a:
            it = tr.it_out
    return it


def dense_newton_step(ri, X0, Y0, dt, rho, tau=None):
    """Dense reference for one semismooth Newton step of F(.; z0, dt, rho) taken *at* z0
    (internal coordinates, reference model ``ri``).  Returns (Xn, Yn, cond, |s|_inf) or None when the
    active set is on a knife edge or the Newton matrix is too ill-conditioned to compare."""
    n_int = ri.N
    m = ri.ref.m
    lb, ub = ri.var_lb, ri.var_ub
    dxL = ri.aug_lag_dx(X0, Y0, rho)
    p = X0 - dt * dxL
    if tau is None:
        q = p
    else:
        # explicit tau: the active set is taken at (1 - tau*lamb) x + tau*lamb x0 - tau grad = x0 - tau grad here
        q = X0 - tau * dxL
    if np.any(np.abs(q - lb) <= 1e-6 * (1 + np.abs(q))) or np.any(np.abs(q - ub) <= 1e-6 * (1 + np.abs(q))):
        return None
    act = (q < lb) | (q > ub)
    proj = p.copy()
    proj[act] = np.minimum(np.maximum(p[act], lb[act]), ub[act])
    c = ri.cons(X0)
    F = np.concatenate([X0 - proj, Y0 - (Y0 + dt * c)])
    Hxx = ri.aug_lag_dxx(X0, Y0, rho)
    J = ri.jac(X0)
    inact = (~act).astype(float)
    Fp = np.block([[np.eye(n_int) + inact[:, None] * (dt * Hxx), inact[:, None] * (dt * J.T)], [-dt * J, np.eye(m)]])
    if not np.all(np.isfinite(Fp)):
        return None
    sv = np.linalg.svd(Fp, compute_uv=False)
    if sv[-1] <= 0 or sv[0] / sv[-1] > 1e6:
        return None
    s = np.linalg.solve(Fp, F)
    Xn = np.minimum(np.maximum(X0 - s[:n_int], lb), ub)
    Yn = Y0 - s[n_int:]
    return Xn, Yn, float(sv[0] / sv[-1]), float(np.max(np.abs(s), initial=0.0))
