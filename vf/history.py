"""Helpers over a recorded trial history (shared by C12, C15, C16, C07, C08)."""

import numpy as np


def adoptions(trials, result=None, solver=None):
    """adopted[t] == True iff the solver's current iterate changed to trial t's output.

    For t < T-1: the next trial starts from trial t's returned iterate object (and that object
    differs from the input).  For the last trial it is decided from the result: which of the two
    candidates the returned (x, y) equals (None when both coincide or nothing was returned).
    """
    T = len(trials)
    out = []
    for t in range(T):
        tr = trials[t]
        if tr.it_out is None:  # trial ended by exception
            out.append(False)
            continue
        changed = tr.it_out is not tr.it_in
        if t + 1 < T:
            out.append(bool(changed and trials[t + 1].it_in is tr.it_out))
        else:
            if result is None or solver is None or not changed:
                out.append(False if not changed else None)
            else:
                xo, yo, _ = solver.transform.restore_sol(tr.it_out.x, tr.it_out.y, np.zeros_like(tr.it_out.x))
                xi, yi, _ = solver.transform.restore_sol(tr.it_in.x, tr.it_in.y, np.zeros_like(tr.it_in.x))
                eq_o = np.array_equal(result.x, xo) and np.array_equal(result.y, yo)
                eq_i = np.array_equal(result.x, xi) and np.array_equal(result.y, yi)
                if eq_o and not eq_i:
                    out.append(True)
                elif eq_i and not eq_o:
                    out.append(False)
                else:
                    out.append(None)
    return out


def last_adopted_iterate(trials, adopted):
    it = trials[0].it_in if trials else None
    for tr, a in zip(trials, adopted):
        if a:
            it = tr.it_out
    return it
