#!/bin/bash
# Offline setup: make sure hypothesis is importable by /venv/bin/python (it is pre-installed in
# this image; otherwise install from the offline wheelhouse into /verif/.deps). Nothing is compiled.
HERE="$(cd "$(dirname "${BASH_SOURCE[0]}")" && pwd)"
cd "$HERE"
export PIP_NO_INDEX=1
PY=/venv/bin/python
if ! PYTHONPATH="$HERE/.deps" $PY -c "import hypothesis" >/dev/null 2>&1; then
  $PY -m pip install --no-index --find-links /opt/veriftools/wheels --target "$HERE/.deps" hypothesis || exit 1
fi
mkdir -p evidence replays
PYTHONPATH="$HERE:$HERE/.deps:/repo" $PY -c "import hypothesis, numpy, scipy, pygradflow.solver, vf.runner; print('setup ok: hypothesis', hypothesis.__version__)"
