#!/bin/bash
# tools/seed_regress.sh : for every seeded change, run the check of its property against the changed tree
# (scratch copy outside /repo and /verif) and keep the smallest shrunk replay as regress/<ID>/seed-<name>.json
cd "$(dirname "$0")/.."
for d in seeded/*/; do
  name=$(basename $d)
  pid=$(python3 -c "import json;print(json.load(open('$d/meta.json'))['property'])")
  [ -f regress/$pid/seed-$name.json ] && continue
  tmp=$(mktemp -d /tmp/sr_XXXX)
  mkdir -p $tmp/chg; git -C /repo archive HEAD | tar -x -C $tmp/chg
  ( cd $tmp/chg && patch -p1 -s < /verif/$d/patch.diff ) || { echo "$name PATCH FAILED"; rm -rf $tmp; continue; }
  VERIF_REPO=$tmp/chg VERIF_OUT=$tmp/out ./check $pid --tier quick > $tmp/log 2>&1
  best=$(ls -S $tmp/out/replays/*.json 2>/dev/null | tail -1)
  if [ -n "$best" ]; then
    mkdir -p regress/$pid; cp "$best" regress/$pid/seed-$name.json
    # must pass on the unchanged tree
    if ./check $pid --replay regress/$pid/seed-$name.json 2>/dev/null | grep -q VIOLATION; then echo "$name: replay fails on clean tree, dropped"; rm regress/$pid/seed-$name.json; else echo "$name -> regress/$pid/seed-$name.json"; fi
  else
    echo "$name: no replay produced ($(grep -E '^\[C' $tmp/log | cut -c1-120))"
  fi
  rm -rf $tmp
done
