#!/bin/bash
# tools/oldtree.sh <commit> <dir>: export pygradflow/ of /repo at <commit> into <dir> (scratch, outside /repo and /verif)
set -e
mkdir -p "$2"
git -C /repo archive "$1" pygradflow | tar -x -C "$2"
