#!/bin/bash
# tools/runall.sh [tier] : run every registered check once, validate evidence, summarise
cd "$(dirname "$0")/.."
tier=${1:-quick}
rc=0
for id in $(python3 -c "import json; print(' '.join(c['property_id'] for c in json.load(open('MANIFEST.json'))['checks']))"); do
  s=$(date +%s)
  out=$(./check $id --tier $tier 2>&1); code=$?
  e=$(( $(date +%s) - s ))
  echo "$id exit=$code ${e}s :: $(echo "$out" | grep -E '^\[C|VIOLATION|KNOWN-FINDING|HARNESS' | cut -c1-220 | tr '\n' ' ')"
  [ $code -ne 0 ] && rc=1
done
python3-vt - <<'PY'
import json, jsonschema, glob
m=json.load(open('MANIFEST.json')); jsonschema.validate(m, json.load(open('/root/.vp/MANIFEST.schema.json')))
es=json.load(open('/root/.vp/EVIDENCE.schema.json'))
for c in m['checks']:
    try:
        jsonschema.validate(json.load(open(c['evidence_file'])), es)
    except Exception as e:
        print('EVIDENCE INVALID', c['property_id'], str(e)[:200])
print('manifest+evidence validated')
PY
exit $rc
