#!/bin/bash
# tools/seed_verify.sh <dir with patch.diff, demo.py> "<check ids>" [tier]
# Confirms a seeded change independently in scratch copies outside /repo and /verif:
#  test suite on the changed tree, demo on original and changed tree, then our checks against the changed tree.
src=$(cd "$1" && pwd); checks=$2; tier=${3:-quick}
tmp=$(mktemp -d /tmp/sv_XXXX)
mkdir -p $tmp/orig $tmp/chg
git -C /repo archive HEAD | tar -x -C $tmp/orig
git -C /repo archive HEAD | tar -x -C $tmp/chg
( cd $tmp/chg && patch -p1 -s < $src/patch.diff ) || { echo "PATCH FAILED"; rm -rf $tmp; exit 2; }
echo "== test suite on changed tree"
( cd $tmp/chg && env -u PYGRADFLOW_VERIF /venv/bin/python -m pytest -q -p no:cacheprovider --timeout=900 --continue-on-collection-errors tests 2>&1 | grep -E "passed|failed" | tail -1 )
echo "== demo on original"; ( cd $tmp && OPENBLAS_NUM_THREADS=1 timeout 300 /venv/bin/python $src/demo.py $tmp/orig 2>&1 | tail -3; echo "exit=${PIPESTATUS[0]}" )
echo "== demo on changed";  ( cd $tmp && OPENBLAS_NUM_THREADS=1 timeout 300 /venv/bin/python $src/demo.py $tmp/chg 2>&1 | tail -4; echo "exit=${PIPESTATUS[0]}" )
for c in $checks; do
  echo "== check $c ($tier) against changed tree"
  VERIF_REPO=$tmp/chg VERIF_OUT=$tmp/out /verif/check $c --tier $tier 2>&1 | grep -E "^\[C|bucket|VIOLATION|KNOWN|HARNESS" | cut -c1-260
done
rm -rf $tmp
