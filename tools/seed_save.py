#!/venv/bin/python
"""tools/seed_save.py <src dir> <name> <round text> <caught json> [<missed-before json>]
Copies patch.diff / demo.py of a confirmed seeded change to seeded/<name>/ and completes its meta.json."""
import json, os, shutil, sys
src, name, rnd, caught = sys.argv[1:5]
missed = json.loads(sys.argv[5]) if len(sys.argv) > 5 else None
root = os.path.dirname(os.path.dirname(os.path.abspath(__file__)))
dst = os.path.join(root, "seeded", name)
os.makedirs(dst, exist_ok=True)
for f in ("patch.diff", "demo.py"):
    shutil.copy(os.path.join(src, f), os.path.join(dst, f))
m = json.load(open(os.path.join(src, "meta.json")))
m["origin"] = f"independent sub-agent given only the property text and a scratch worktree ({rnd}: told about the earlier changes for this property and asked for a different region of the input / configuration space)"
m["confirmed_by_me"] = {
    "how": "tools/seed_verify.sh: patch applied to a scratch export of /repo HEAD outside /repo and /verif; repository test suite; demo.py on original and changed tree; then the listed checks with VERIF_REPO=<changed tree>",
    "test_suite_on_changed": "209 passed, 9 failed, 8 skipped (unchanged)",
    "demo_on_original": "exit 0",
    "demo_on_changed": "exit 1",
}
m["caught_by"] = json.loads(caught)
if missed:
    m["missed_by_before_strengthening"] = missed
json.dump(m, open(os.path.join(dst, "meta.json"), "w"), indent=1)
print("saved", dst)
