#!/venv/bin/python
"""Regenerate /verif/MANIFEST.json from the property modules' metadata."""
import importlib
import json
import os
import sys

ROOT = os.path.dirname(os.path.dirname(os.path.abspath(__file__)))
sys.path.insert(0, ROOT)
sys.path.insert(0, "/repo")

props = [json.loads(l) for l in open(os.path.join(ROOT, "properties.jsonl"))]
checks, na = [], []
for p in props:
    pid = p["id"]
    path = os.path.join(ROOT, "props", pid.lower() + ".py")
    if not os.path.exists(path):
        na.append({"property_id": pid, "reason": "check not built yet (planned in DESIGN.md section 4)"})
        continue
    mod = importlib.import_module("props." + pid.lower())
    if getattr(mod, "NOT_CLAIMED", None):
        na.append({"property_id": pid, "reason": mod.NOT_CLAIMED})
        continue
    checks.append(
        {
            "property_id": pid,
            "quick_cmd": f"./check {pid} --tier quick",
            "thorough_cmd": f"./check {pid} --tier thorough",
            "evidence_file": f"evidence/{pid}.json",
            "replay_cmd_template": f"./check {pid} --replay {{path}}",
            "engine": "vf",
            "level_claimed": {
                "category": mod.LEVEL,
                "text": getattr(mod, "LEVEL_TEXT", mod.__doc__.strip().split("\n\n")[0]),
                "design_ref": f"DESIGN.md section 4, {pid}",
            },
            "level_note": getattr(mod, "LEVEL_NOTE", "; ".join(getattr(mod, "ASSUMPTIONS", [])) or "search, not proof: absence of violations is not established"),
            "technique": getattr(mod, "TECHNIQUE", "property-based testing (Hypothesis generated inputs vs. explicit oracle)"),
        }
    )

manifest = {
    "version": 1,
    "setup_cmd": "./setup.sh",
    "hooks": {
        "guard": "PYGRADFLOW_VERIF",
        "enable": "no source hooks are needed: all seams (Solver._compute_step override, ComputedStep callbacks, pygradflow.timer.time, pygradflow.linear_solver.linear_solver, the user's Problem) are reachable from outside; the checks export PYGRADFLOW_VERIF=1 but nothing in /repo reads it",
        "baseline_off_cmd": "cd /repo && /venv/bin/python -m pytest -q -p no:cacheprovider --timeout=900 --continue-on-collection-errors",
        "source_commits": [],
        "add_only": True,
    },
    "engines": [
        {
            "name": "vf",
            "path": "vf/",
            "serves_properties": [c["property_id"] for c in checks],
            "kind_free_text": "Hypothesis-driven generated-input search (16 worker processes, collect-then-shrink, pure replayable check functions, dense reference model, virtual clock, fault injectors)",
        }
    ],
    "checks": checks,
    "not_applicable": na,
    "notes": "All checks run /repo's current working tree by import (pure Python). VERIF_SEED selects the Hypothesis seed; known findings and fixed entries live in known_findings.json.",
}
with open(os.path.join(ROOT, "MANIFEST.json"), "w") as f:
    json.dump(manifest, f, indent=1)
print("claimed:", [c["property_id"] for c in checks])
print("not claimed:", [n["property_id"] for n in na])
