#!/venv/bin/python
"""Regenerate /verif/MANIFEST.json from the property modules' metadata."""
import importlib
import json
import os
import sys

ROOT = os.path.dirname(os.path.dirname(os.path.abspath(__file__)))
sys.path.insert(0, ROOT)
sys.path.insert(0, "/repo")

TECH = {
 "C01": "property-based testing: Hypothesis-generated problems x configurations, dense KKT oracle of the user's problem",
 "C02": "property-based testing: generated infeasible / unbounded / limited runs, virtual and real clock, status oracles from the dense reference",
 "C03": "property-based testing: generated convex QPs of the stated class, convergence-within-budget oracle",
 "C04": "differential property-based testing: independent reference transformation, bit-exact comparison",
 "C05": "property-based testing over histories: recording Problem wrapper, exact bound oracle on every evaluation",
 "C06": "generated crash search with exception bucketing by (type, innermost pygradflow function), collect-then-shrink",
 "C07": "fault injection enumerated inside generated cases (k-th evaluation, factorisation, solve, persistent region) with a phase oracle",
 "C08": "stop-position enumeration inside generated cases (every iteration budget, every virtual-clock deadline) vs. prefix oracle",
 "C09": "metamorphic property-based testing: observed vs unobserved twin runs, bit-wise digests, pattern virtual clock",
 "C10": "model-based stateful testing (Hypothesis RuleBasedStateMachine, recorded operations replayed by a pure check; model = first digest per key)",
 "C11": "property-based testing: deep snapshots of caller-owned objects + cached-vs-fresh twin runs",
 "C12": "property-based testing over histories: trace / callback / result consistency oracle, re-solve with a late observer",
 "C13": "differential property-based testing against an independent dense numpy implementation of the definitions",
 "C14": "differential property-based testing: every step-solver x linear-solver x Newton variant vs dense numpy.linalg.solve",
 "C15": "property-based testing over histories: consecutive-step oracle, independent implicit-Euler residual, injected failures",
 "C16": "property-based testing over histories: penalty monotonicity / bound oracle, re-solve, Newton step for the recorded penalty",
 "C17": "differential property-based testing: dense residual / backward-error oracle per solver's stated tolerance",
 "C18": "exhaustive small-scope enumeration + Hypothesis RuleBasedStateMachine + solver-level replay against a history-based Pareto-front oracle",
 "C19": "property-based testing: correct vs single-entry-corrupted derivative twins, localisation oracle",
 "C20": "property-based testing with exact power-of-two arithmetic oracle over wide-magnitude data",
}
NOTE = "search, not proof: absence of violations is not established; trusts numpy/scipy dense linear algebra and the reference model in vf/spec.py (written from the definitions, never imports pygradflow); "

props = [json.loads(l) for l in open(os.path.join(ROOT, "properties.jsonl"))]
checks, na = [], []
for p in props:
    pid = p["id"]
    path = os.path.join(ROOT, "props", pid.lower() + ".py")
    if not os.path.exists(path):
        na.append({"property_id": pid, "reason": "check not built yet (planned in DESIGN.md section 4)"})
        continue
    mod = importlib.import_module("props." + pid.lower())
    if getattr(mod, "NOT_CLAIMED", None):
        na.append({"property_id": pid, "reason": mod.NOT_CLAIMED})
        continue
    checks.append(
        {
            "property_id": pid,
            "quick_cmd": f"./check {pid} --tier quick",
            "thorough_cmd": f"./check {pid} --tier thorough",
            "evidence_file": f"evidence/{pid}.json",
            "replay_cmd_template": f"./check {pid} --replay {{path}}",
            "engine": "vf",
            "level_claimed": {
                "category": mod.LEVEL,
                "text": getattr(mod, "LEVEL_TEXT", " ".join(mod.__doc__.split())[:1600]
                                + " -- Level: generated-input search against this explicit oracle (every case is replayable through the pure check function); it shows violations and never establishes their absence, which is the honest level for a universally quantified numerical property."),
                "design_ref": f"DESIGN.md section 4, {pid}",
            },
            "level_note": getattr(mod, "LEVEL_NOTE", NOTE + "; ".join(getattr(mod, "ASSUMPTIONS", []))),
            "technique": getattr(mod, "TECHNIQUE", TECH[pid]),
        }
    )

manifest = {
    "version": 1,
    "setup_cmd": "./setup.sh",
    "hooks": {
        "guard": "PYGRADFLOW_VERIF",
        "enable": "no source hooks are needed: all seams (Solver._compute_step override, ComputedStep callbacks, pygradflow.timer.time, pygradflow.linear_solver.linear_solver, the user's Problem) are reachable from outside; the checks export PYGRADFLOW_VERIF=1 but nothing in /repo reads it",
        "baseline_off_cmd": "cd /repo && /venv/bin/python -m pytest -q -p no:cacheprovider --timeout=900 --continue-on-collection-errors",
        "source_commits": [],
        "add_only": True,
    },
    "engines": [
        {
            "name": "vf",
            "path": "vf/",
            "serves_properties": [c["property_id"] for c in checks],
            "kind_free_text": "Hypothesis-driven generated-input search (16 worker processes, collect-then-shrink, pure replayable check functions, dense reference model, virtual clock, fault injectors)",
        }
    ],
    "checks": checks,
    "not_applicable": na,
    "notes": "All checks run /repo's current working tree by import (pure Python). VERIF_SEED selects the Hypothesis seed; known findings and fixed entries live in known_findings.json.",
}
with open(os.path.join(ROOT, "MANIFEST.json"), "w") as f:
    json.dump(manifest, f, indent=1)
print("claimed:", [c["property_id"] for c in checks])
print("not claimed:", [n["property_id"] for n in na])
