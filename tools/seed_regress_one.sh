#!/bin/bash
# tools/seed_regress_one.sh <seeded name> <check id> <seed> [<seed> ...]
# Runs the check against the seeded change at the given VERIF_SEED values until it reports a violation and keeps the
# smallest shrunk replay as regress/<ID>/seed-<name>.json (it must pass on the unchanged tree).
cd "$(dirname "$0")/.."
name=$1; pid=$2; shift 2
tmp=$(mktemp -d /tmp/sr_XXXX)
mkdir -p $tmp/chg; git -C /repo archive HEAD | tar -x -C $tmp/chg
( cd $tmp/chg && patch -p1 -s < /verif/seeded/$name/patch.diff ) || { echo "$name PATCH FAILED"; rm -rf $tmp; exit 2; }
for sd in "$@"; do
  rm -rf $tmp/out
  VERIF_SEED=$sd VERIF_REPO=$tmp/chg VERIF_OUT=$tmp/out ./check $pid --tier quick > $tmp/log 2>&1
  best=$(ls -S $tmp/out/replays/*.json 2>/dev/null | tail -1)
  if [ -n "$best" ]; then
    mkdir -p regress/$pid; cp "$best" regress/$pid/seed-$name.json
    if ./check $pid --replay regress/$pid/seed-$name.json 2>/dev/null | grep -q VIOLATION; then echo "$name: replay fails on clean tree, dropped"; rm regress/$pid/seed-$name.json; else echo "$name (seed $sd) -> regress/$pid/seed-$name.json"; rm -rf $tmp; exit 0; fi
  else
    echo "$name seed $sd: not caught ($(grep -E '^\[C' $tmp/log | cut -c1-100))"
  fi
done
rm -rf $tmp; exit 1
