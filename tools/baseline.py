#!/venv/bin/python
"""Run the repository's pinned test suite and compare with /root/.vp/BASELINE.json stable_pass."""
import json, subprocess, sys, tempfile, xml.etree.ElementTree as ET, os
base = json.load(open("/root/.vp/BASELINE.json"))
with tempfile.TemporaryDirectory() as d:
    x = os.path.join(d, "j.xml")
    env = dict(os.environ); env.pop("PYGRADFLOW_VERIF", None)
    subprocess.run(["/venv/bin/python", "-m", "pytest", "-q", "-p", "no:cacheprovider", "--timeout=900", "--continue-on-collection-errors", f"--junitxml={x}"], cwd="/repo", env=env, capture_output=True)
    passed = set()
    for tc in ET.parse(x).getroot().iter("testcase"):
        if not any(ch.tag in ("failure", "error", "skipped") for ch in tc):
            passed.add(f"{tc.get('classname')}::{tc.get('name')}")
missing = sorted(set(base["stable_pass"]) - passed)
print(f"passed={len(passed)} stable_pass={len(base['stable_pass'])} missing={len(missing)}")
for m in missing[:20]: print("  MISSING", m)
sys.exit(1 if missing else 0)
