#!/venv/bin/python
"""Sensitivity runs: apply a source mutant to a scratch copy of /repo/pygradflow (outside /repo and
/verif), run the named checks against it, report which caught it, delete the copy.

    tools/mutants.py list
    tools/mutants.py run <name> [<name> ...] [--tier quick]
    tools/mutants.py all [--props C04,C13]
"""
import json, os, shutil, subprocess, sys, tempfile

ROOT = os.path.dirname(os.path.dirname(os.path.abspath(__file__)))
sys.path.insert(0, ROOT)
from tools.mutant_defs import MUTANTS  # noqa: E402


def run_one(name, tier="quick", props=None):
    m = MUTANTS[name]
    tmp = tempfile.mkdtemp(prefix="vfmut_")
    try:
        shutil.copytree("/repo/pygradflow", os.path.join(tmp, "pygradflow"))
        for (f, old, new) in m["edits"]:
            p = os.path.join(tmp, f)
            s = open(p).read()
            if s.count(old) != 1:
                return {"name": name, "error": f"pattern occurs {s.count(old)} times in {f}: {old!r}"}
            open(p, "w").write(s.replace(old, new))
        res = {}
        for pid in (props or m["props"]):
            env = dict(os.environ, VERIF_REPO=tmp, VERIF_OUT=os.path.join(tmp, "out"))
            r = subprocess.run([os.path.join(ROOT, "check"), pid, "--tier", tier], env=env, capture_output=True, text=True, timeout=3600)
            viol = [l for l in r.stdout.splitlines() if l.startswith("VIOLATION")]
            buckets = [l.strip() for l in r.stdout.splitlines() if l.strip().startswith("bucket")]
            res[pid] = {"exit": r.returncode, "violations": len(viol), "buckets": [b[:160] for b in buckets[:3]]}
            if r.returncode == 2:
                res[pid]["stderr"] = r.stderr[-400:]
        return {"name": name, "results": res}
    finally:
        shutil.rmtree(tmp, ignore_errors=True)


if __name__ == "__main__":
    args = sys.argv[1:]
    tier = "quick"
    if "--tier" in args:
        i = args.index("--tier"); tier = args[i + 1]; del args[i:i + 2]
    only = None
    if "--props" in args:
        i = args.index("--props"); only = args[i + 1].split(","); del args[i:i + 2]
    if not args or args[0] == "list":
        for k, v in MUTANTS.items():
            print(k, v["props"], "-", v.get("desc", ""))
        sys.exit(0)
    names = list(MUTANTS) if args[0] == "all" else args[1:] if args[0] == "run" else args
    if only:
        names = [n for n in names if set(MUTANTS[n]["props"]) & set(only)]
    for n in names:
        props = [p for p in MUTANTS[n]["props"] if (not only or p in only)]
        out = run_one(n, tier, props)
        print(json.dumps(out))
        sys.stdout.flush()
