"""Hand-written mutants of pygradflow used to measure the sensitivity of each check.
edits: (file relative to repo root, old text (must occur exactly once), new text)."""

MUTANTS = {
    # ---- C18
    "c18_strict_dominance": {"props": ["C18"], "desc": "filter refuses only on strict <",
        "edits": [("pygradflow/penalty.py", "return first[0] <= second[0] and first[1] <= second[1]", "return first[0] < second[0] and first[1] <= second[1]")]},
    "c18_no_prune": {"props": ["C18"], "desc": "accepted entry does not remove dominated ones",
        "edits": [("pygradflow/penalty.py", "self.entries = [e for e in self.entries if not dominates(entry, e)]", "self.entries = list(self.entries)")]},
    "c18_rho_on_accept": {"props": ["C18"], "desc": "rho raised before the filter test",
        "edits": [("pygradflow/penalty.py", "        if self.filter_insert(*next_entry):\n            return PenaltyResult.accept_with_penalty(self.rho)\n\n        self.rho *= 10.0", "        self.rho *= 10.0\n        if self.filter_insert(*next_entry):\n            return PenaltyResult.accept_with_penalty(self.rho)\n")]},
    # ---- C04
    "c04_rowbounds_varweights": {"props": ["C04"], "desc": "row lower bounds scaled with a shifted weight",
        "edits": [("pygradflow/scale.py", "cons_lb = np.ldexp(problem.cons_lb, scaling.cons_weights)", "cons_lb = np.ldexp(problem.cons_lb, scaling.cons_weights - (scaling.cons_weights > 50))")]},
    "c04_hess_weight_sign": {"props": ["C04", "C01"], "desc": "combined Hessian weight uses +var_weights[j]",
        "edits": [("pygradflow/scale.py", "combined_weight = obj_weight - var_weights[i] - var_weights[j]", "combined_weight = obj_weight - var_weights[i] + var_weights[j]")]},
    "c04_yorig_exponent": {"props": ["C04"], "desc": "y passed to user Hessian without obj weight",
        "edits": [("pygradflow/scale.py", "y_orig = np.ldexp(y, cons_weights - obj_weight)", "y_orig = np.ldexp(y, cons_weights)")]},
    "c04_slack_unclipped": {"props": ["C04", "C05"], "desc": "start slack not clipped at the upper bound",
        "edits": [("pygradflow/cons_problem.py", "slack_val = np.clip(cons_val, lb_val, ub_val)", "slack_val = np.maximum(cons_val, lb_val)")]},
    "c04_offset_sign": {"props": ["C04", "C01"], "desc": "equality offset +l instead of -l",
        "edits": [("pygradflow/cons_problem.py", "cons_offsets[i] = -lb", "cons_offsets[i] = lb")]},
    "c04_unscale_d_cons": {"props": ["C04", "C01"], "desc": "bound duals unscaled without the objective weight",
        "edits": [("pygradflow/scale.py", "        return np.ldexp(y, self._bound_weights())", "        return np.ldexp(y, self.var_weights)")]},
}
