"""C19 -- the derivative checker accepts correct derivatives and pinpoints wrong ones.

Generated: well-scaled smooth problems (|coefficients| <= 2, |x0| <= 2, so the forward-difference
error bound computed from the data is << deriv_tol), with equality and inequality rows (slack
columns present), any sparse format; a corruption target (gradient / Jacobian / Hessian), a
position (row, column) and a magnitude |delta| in [2.5e-4 + 2e-5 |entry|, 10] with either sign, or the entry is
omitted from the sparse matrix altogether (error -entry, when that is in the same range).

Three runs per case (iteration_limit 5): derivative check off; CheckAll (or only the order the entry belongs to:
CheckFirst for gradient / Jacobian, CheckSecond for Hessian entries) on the correct problem; the same check on the
problem with the single entry corrupted.  Oracle: the correct problem raises no
DerivError and its digest equals the digest without the check ("never alters the solve"); the
corrupted one raises DerivError with col_index == column and invalid_indices == [row]
(gradient: [0]).
"""

import numpy as np
from hypothesis import strategies as st

from vf import strategies as S
from vf.runner import excluded, ok, trivial, violation
from vf.spec import Ref, make_user_problem
from vf.trace import make_tracing_solver, run_solve

ID = "C19"
LEVEL = "exploration"
BUDGET = {"quick": 60, "thorough": 6000}
RULE = (
    "case = (well-scaled spec, start, corruption target/position/magnitude); three solves per case. "
    "distinct = SHA-256 of the case; non-trivial = n >= 2 and (m >= 1 for Jacobian/Hessian targets), "
    "i.e. the position is one of several candidates."
)
ASSUMPTIONS = [
    "well-scaled: |f|, |f''| <= ~1e2 so forward differences with deriv_pert=1e-8 are accurate to ~3e-5",
    "a single wrong entry per case (the statement's wording)",
]


def strategy(tier):
    @st.composite
    def _s(draw):
        spec = draw(S.nlp_spec(max_n=4 if tier == "quick" else 6, max_m=3, min_m=draw(st.sampled_from([0, 1, 2]))))
        n, m = spec["n"], spec["m"]
        # sparse derivatives with exactly-zero entries next to curved ones: "exactly the wrong row"
        # is only a strong statement when the other rows of the column are (near) zero
        if draw(st.booleans()):
            Q = np.array(spec["Q"], dtype=float)
            mask = np.array(draw(st.lists(st.booleans(), min_size=n * n, max_size=n * n))).reshape(n, n)
            mask = np.triu(mask, 1)
            Q[(mask | mask.T)] = 0.0
            spec["Q"] = Q.tolist()
            if m:
                A = np.array(spec["A"], dtype=float).reshape(m, n)
                am = np.array(draw(st.lists(st.booleans(), min_size=m * n, max_size=m * n))).reshape(m, n)
                A[am] = 0.0
                spec["A"] = A.tolist()
                # stronger constraint curvature (|second derivatives| up to 4)
                spec["Hc"] = [S.sym_from_lower(S.dmat(draw, n, n, -32, 32, 8.0)) for _ in range(m)]
                bshift = S.Ref(spec).c(np.array(spec.get("xf", [0.0] * n)))
                spec["b"] = [float(b0 + t) for b0, t in zip(spec["b"], bshift)]
        x0 = S.dvec(draw, n, -16, 16, 8.0)
        zero = draw(st.lists(st.booleans(), min_size=n, max_size=n))
        x0 = [0.0 if z else v for z, v in zip(zero, x0)]
        x0 = np.clip(x0, spec["lb"], spec["ub"]).tolist()
        if max(abs(v) for v in x0) > 2.0:
            x0 = np.clip(x0, -2.0, 2.0).tolist()
            x0 = np.clip(x0, spec["lb"], spec["ub"]).tolist()
        y0 = S.dvec(draw, m, -8, 8, 4.0)
        target = draw(st.sampled_from(["grad", "jac", "hess"] if m else ["grad", "hess"]))
        if target == "grad":
            r, c = 0, draw(st.integers(0, n - 1))
        elif target == "jac":
            r, c = draw(st.integers(0, m - 1)), draw(st.integers(0, n - 1))
        else:
            r, c = draw(st.integers(0, n - 1)), draw(st.integers(0, n - 1))
        mag = draw(st.sampled_from([0.0, 1e-4, 1e-3, 0.05, 1.0, 9.0]))
        sign = draw(st.sampled_from([-1.0, 1.0]))
        # "omit": the entry is left out of the sparse matrix altogether (a forgotten entry of the sparsity pattern)
        mode = draw(st.sampled_from(["add", "add", "omit"]))
        # which check is requested: all of them, or only the order the wrong entry belongs to
        dc = draw(st.sampled_from(["CheckAll", "CheckAll", "own_order"]))
        return {"spec": spec, "start": {"x0": x0, "y0": y0}, "target": target, "r": r, "c": c, "mag": mag, "sign": sign, "mode": mode, "dc": dc}

    return _s()


def corrupt(inner, target, r, c, delta, omit=False):
    import scipy.sparse as sps

    from pygradflow.problem import Problem

    class Corrupted(Problem):
        def __init__(self):
            kw = dict(cons_lb=inner.cons_lb, cons_ub=inner.cons_ub) if inner.num_cons else {}
            super().__init__(inner.var_lb, inner.var_ub, **kw)

        def obj(self, x):
            return inner.obj(x)

        def obj_grad(self, x):
            g = np.array(inner.obj_grad(x), dtype=float, copy=True)
            if target == "grad":
                g[c] += delta
            return g

        def cons(self, x):
            return inner.cons(x)

        def cons_jac(self, x):
            J = inner.cons_jac(x)
            if target == "jac":
                fmt = J.format
                D = J.toarray().astype(float)  # (callbacks may return integer-typed matrices)
                D[r, c] = 0.0 if omit else D[r, c] + delta
                J = sps.coo_matrix(D).asformat(fmt)
            return J

        def lag_hess(self, x, y):
            H = inner.lag_hess(x, y)
            if target == "hess":
                fmt = H.format
                D = H.toarray().astype(float)
                D[r, c] = 0.0 if omit else D[r, c] + delta
                H = sps.coo_matrix(D).asformat(fmt)
            return H

    return Corrupted()


def check(case):
    from pygradflow.deriv_check import DerivError
    from pygradflow.params import DerivCheck, Params

    spec = case["spec"]
    r_ = Ref(spec)
    n, m = r_.n, r_.m
    target, r, c = case["target"], int(case["r"]), int(case["c"])
    labels = [f"target:{target}", f"fmt:{spec['fmt']['jac']}/{spec['fmt']['hess']}", f"rows:{'+'.join(sorted({r_.row_kind(i) for i in range(m)})) or 'none'}"]
    x0 = np.array(case["start"]["x0"], dtype=float)
    y0 = np.array(case["start"]["y0"], dtype=float)
    if np.max(np.abs(x0), initial=0) > 2.0 + 1e-12:
        return excluded("start_not_well_scaled", labels)
    # size of the true entry, for the relative part of the checker's tolerance
    if target == "grad":
        entry = r_.g(x0)[c]
    elif target == "jac":
        entry = r_.J(x0)[r, c]
    else:
        entry = r_.H(x0, y0)[r, c]
    delta = case["sign"] * (2.5e-4 + 2e-5 * abs(entry) + case["mag"])
    if abs(delta) > 10.0:
        delta = np.sign(delta) * 10.0
    omit = False
    if case.get("mode") == "omit" and target != "grad":
        # the entry is dropped from the matrix: an error of -entry, in the statement's domain when it is large enough
        if abs(entry) >= 1.01 * (2.5e-4 + 2e-5 * abs(entry)) and abs(entry) <= 10.0:
            omit, delta = True, -float(entry)
            labels.append("mode:omit")
        else:
            labels.append("mode:omit_fallback_add")
    labels.append(f"mag:{case['mag']:g}")

    def run(problem, dc):
        params = Params(deriv_check=dc, iteration_limit=5)
        solver = make_tracing_solver(problem, params)
        return run_solve(problem, params, x0.copy(), y0.copy(), solver=solver)

    CHECK = DerivCheck.CheckAll
    if case.get("dc") == "own_order":
        CHECK = DerivCheck.CheckSecond if target == "hess" else DerivCheck.CheckFirst
    labels.append(f"deriv_check:{CHECK.name}")
    base = run(make_user_problem(spec), DerivCheck.NoCheck)
    good = run(make_user_problem(spec), CHECK)
    if isinstance(good.exc, DerivError):
        e = good.exc
        return violation(f"correct-derivatives-rejected|{target}", f"{CHECK.name} rejects a correct problem: col {e.col_index}, rows {e.invalid_indices.tolist()}, max diff {e.max_deriv_diff:.3e}", labels, sub=3)
    if good.digest != base.digest:
        return violation("check-alters-solve", f"digest with {CHECK.name} differs from NoCheck ({good.result.status.name if good.result else good.exc!r} vs {base.result.status.name if base.result else base.exc!r})", labels, sub=3)
    bad = run(corrupt(make_user_problem(spec), target, r, c, delta, omit=omit), CHECK)
    if not isinstance(bad.exc, DerivError):
        return violation(f"wrong-entry-accepted|{target}", f"{target} entry ({r},{c}) wrong by {delta:.3e} (true {entry:.3e}) but {CHECK.name} raised {bad.exc!r} / returned {bad.result.status.name if bad.result else None}", labels, sub=3)
    e = bad.exc
    rows = [int(t) for t in np.asarray(e.invalid_indices).tolist()]
    exp_rows = [0] if target == "grad" else [r]
    if int(e.col_index) != c or rows != exp_rows:
        return violation(f"wrong-location|{target}", f"{target} entry ({r},{c}) wrong by {delta:.3e}: DerivError reports column {e.col_index}, rows {rows}", labels, sub=3)
    try:
        str(e)
    except Exception as ex:
        return violation("error-message-fails", f"str(DerivError) raised {type(ex).__name__}: {ex}", labels, sub=3)
    if not (n >= 2 and (target == "grad" or m >= 1 or target == "hess")):
        return trivial("single_position", labels, sub=3)
    return ok(labels, True, sub=3)
