"""C03 -- well-posed strictly convex QPs are actually solved.

Generated (a conservative subset of the stated class, so that every failure is a real one):
strictly convex QPs Q = LL' + dI (dense, n <= 6/8) and banded large instances (n 30..200,
tridiagonal Q); affine rows; a feasible point x_f by construction with row bounds (equality /
one-sided / ranged) and variable bounds (free / one-sided / boxed / fixed) placed around it; the
Jacobian restricted to the non-fixed columns has sigma_min >= 0.2 (computed; otherwise the case is
excluded and counted); starts = clip of a drawn point scaled by {1/8, 1, 8}.  Configurations:
defaults, or exactly one change: Newton variant (Simplified/Full/ActiveSet), step-solver type, or
exact step-size control.

Oracle: status == Optimal within the iteration budget 5000 named by the property.
"""

import numpy as np
from hypothesis import strategies as st

from vf import solvecase as SC
from vf import strategies as S
from vf.runner import excluded, ok, trivial, violation
from vf.spec import Ref
from vf.trace import make_tracing_solver, run_solve

ID = "C03"
LEVEL = "exploration"
BUDGET = {"quick": 40, "thorough": 800}
CASE_TIMEOUT = 300
RULE = (
    "case = (convex QP spec, start, one default-like configuration); distinct = SHA-256 of the case; "
    "non-trivial = at least one variable bound or inequality row active at the solution and >= 2 "
    "iterations. Evidence reports the maximum and 99th-percentile iteration counts."
)
ASSUMPTIONS = [
    "only stalls / divergence are detectable: merely slower convergence inside the budget is not a violation of the statement",
    "full row rank is enforced on the non-fixed columns (sigma_min >= 0.2), a conservative reading of the class",
]
BUDGET_ITERS = 5000
CONFIGS = (
    [{}]
    + [{"newton_type": t} for t in ("Simplified", "Full", "ActiveSet")]
    + [{"step_solver_type": t} for t in ("Standard", "Extended", "Symmetric", "Asymmetric")]
    + [{"step_control_type": "Exact"}]
)


def strategy(tier):
    @st.composite
    def _s(draw):
        big = draw(st.integers(0, 11)) == 0
        if big:
            spec = draw(S.banded_qp_spec(30, 60 if tier == "quick" else 200))
        else:
            spec = draw(S.qp_convex_spec(max_n=6 if tier == "quick" else 8, max_m=4))
            spec["family"] = "qp"
            # NOT magnified: translating the QP by 1e3..1e6 puts bounds, right-hand sides and the linear
            # term six orders of magnitude above the curvature -- outside "moderately conditioned data".
            # (Tried: from a start 1e6 away every configuration, defaults included, is still iterating
            # after 5000 steps; that is not a statement C03 makes.)
        start = draw(S.start_point(spec))
        cfg = draw(st.sampled_from(CONFIGS))
        return {"spec": spec, "start": start, "params": dict(cfg), "scaling": {"kind": "none"}, "iteration_limit": BUDGET_ITERS}

    return _s()


def check(case):
    from pygradflow.status import SolverStatus

    spec = case["spec"]
    r = Ref(spec)
    cfg = case["params"]
    labels = [f"family:{spec.get('family', 'qp')}", "config:" + (",".join(f"{k}={v}" for k, v in cfg.items()) or "default")]
    labels += [f"row:{k}" for k in sorted({r.row_kind(i) for i in range(r.m)})]
    labels += [f"var:{k}" for k in sorted({r.var_kind(j) for j in range(r.n)})]
    free = r.lb != r.ub
    if r.m > 0:
        Af = r.A[:, free]
        if Af.shape[1] < r.m:
            return excluded("more_rows_than_free_columns", labels)
        sv = np.linalg.svd(Af, compute_uv=False)
        if sv.size < r.m or sv[-1] < 0.2:
            return excluded("jacobian_sigma_min_lt_0.2", labels)
    xf = np.array(spec["xf"], dtype=float)
    cf = r.c(xf)
    if not (r.in_box(xf) and np.all(cf >= r.cl - 1e-12) and np.all(cf <= r.cu + 1e-12)):
        return excluded("construction_not_feasible", labels)
    problem, params, x0, y0 = SC.build(case)
    out = run_solve(problem, params, x0, y0)
    if out.exc is not None:
        return violation(f"raises|{labels[1]}", f"{type(out.exc).__name__}: {out.exc} after {len(out.trials)} iterations", labels)
    res = out.result
    if res.status != SolverStatus.Optimal:
        y0a = np.asarray(y0 if y0 is not None else [0.0], dtype=float)
        if res.status == SolverStatus.IterationLimit and y0a.size and float(np.max(np.abs(y0a))) >= 500.0:
            # a class of its own (known finding F25): start multipliers three orders above the data
            labels.append("huge_start_multipliers")
            return violation(f"slow-from-huge-start-multipliers|{labels[1]}", f"status IterationLimit after {res.iterations} iterations (budget {BUDGET_ITERS}) from start multipliers of magnitude {float(np.max(np.abs(y0a))):.0f}", labels)
        return violation(f"not-optimal|{res.status.name}|{labels[1]}", f"status {res.status.name} after {res.iterations} iterations (budget {BUDGET_ITERS}); x={np.asarray(res.x).tolist()}", labels)
    it = int(res.iterations)
    labels.append("iters:" + ("<=20" if it <= 20 else "<=100" if it <= 100 else "<=500" if it <= 500 else ">500"))
    act_b, act_r, _ = SC.active_info(spec, res.x, res.y)
    if not ((act_b or act_r) and it >= 2):
        return trivial("nothing_active_or_lt_2_iterations", labels)
    return ok(labels, True, iterations=it)
