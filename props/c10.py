"""C10 -- a solve is a deterministic function of its inputs, independent of history.

Generated (Hypothesis RuleBasedStateMachine): a per-machine pool of 3 problems x 3 parameter
sets (incl. custom scaling, filter penalties, all controllers) x 2 starts; rules: create a solver,
solve on an existing solver object (re-use), solve on a fresh solver, solve an unrelated problem in
between (including ones that end in an exception), solve with the flow-integration solver (one re-used
IntegrationSolver object per problem, or a fresh one).  The recorded operation list is the case; the
pure check function replays it in one process.

Model: dict (problem, params, start) -> digest of the first solve with that key (every step
computation: input iterate bytes, rho, dt, returned lambda, accepted flag, next iterate bytes;
plus status, x, y, d, counters or the exception).  Invariant: every later solve with the same key
-- on the same solver object or a fresh one, after arbitrary other solves -- has the same digest.
"""

import numpy as np
from hypothesis import strategies as st

from vf import solvecase as SC
from vf import strategies as S
from vf.runner import excluded, ok, trivial, violation
from vf.spec import make_user_problem
from vf.trace import make_tracing_solver, run_solve

ID = "C10"
LEVEL = "exploration"
BUDGET = {"quick": 8, "thorough": 150}
STEP_COUNT = 20
CASE_TIMEOUT = 300
RULE = (
    "case = (pool of specs/params/starts, operation list new|solve|fresh|other|again|badderiv|integ); every solve is one "
    "execution. distinct = SHA-256 of the case; non-trivial = some key was solved at least twice "
    "with another solve in between, at least once on a re-used Solver object."
)
ASSUMPTIONS = ["problems return fresh objects (caching is C11's subject), so the user object carries no state"]


@st.composite
def pool_strategy(draw):
    specs, starts = [], []
    for _ in range(3):
        sp = draw(S.any_spec(families=("nlp", "nlp", "qp", "infeasible", "degenerate"), max_n=4, max_m=2))
        specs.append(sp)
    if draw(st.booleans()):
        # "colliding twins": problem 1 is problem 0 with its variables permuted and sparse data, so that
        # the two share every coarse key a cache might use (sizes, numbers of stored entries) but not the
        # sparsity pattern; problem 2 keeps its own (different) size
        n = draw(st.integers(4, 6))
        hub = draw(st.integers(0, n - 1))
        Q = np.diag([1.0 + draw(st.integers(0, 8)) / 8.0 for _ in range(n)])
        for j in range(n):
            if j != hub:
                Q[hub, j] = Q[j, hub] = draw(st.sampled_from([-0.25, 0.125, 0.25]))
        Q[hub, hub] += 2.0
        a = [draw(st.sampled_from([-1.0, 0.5, 1.0, 2.0])) for _ in range(n)]
        base = {"n": n, "m": 1, "Q": Q.tolist(), "q": S.dvec(draw, n), "A": [a], "b": [draw(st.integers(-8, 8)) / 8.0],
                "lb": [-float("inf")] * n, "ub": [float("inf")] * n, "cl": [0.0], "cu": [0.0],
                "fmt": draw(S.FMT), "family": "twin"}
        perm = draw(st.permutations(list(range(n))))
        P = np.eye(n)[perm]
        twin = dict(base)
        twin["Q"] = (P @ Q @ P.T).tolist()
        twin["q"] = (P @ np.array(base["q"])).tolist()
        twin["A"] = [(P @ np.array(a)).tolist()]
        specs[0], specs[1] = base, twin
    for sp in specs:
        starts.append([draw(S.start_point(sp)), draw(S.start_point(sp))])
    params = []
    for _ in range(3):
        p = draw(S.params_dict())
        extra = {"iteration_limit": draw(st.sampled_from([15, 40]))}
        if draw(st.integers(0, 3)) == 0:
            extra["lamb_max"] = 64.0  # solves that end in the deliberate exception
        if draw(st.booleans()):
            extra["collect_path"] = True
        params.append({"params": p, "extra": extra, "scaled": draw(st.booleans())})
    # custom scaling weights per (spec): kept in the pool so that keys are plain data
    scal = []
    for sp in specs:
        scal.append(draw(S.scaling_dict_strategy(sp, kinds=("custom", "custom", "nominal", "gradjac"))))
    return {"specs": specs, "starts": starts, "params": params, "scalings": scal}


def _case_for(pool, i, j, k):
    pj = pool["params"][j]
    return {
        "spec": pool["specs"][i],
        "start": pool["starts"][i][k],
        "params": pj["params"],
        "scaling": pool["scalings"][i] if pj["scaled"] else {"kind": "none"},
        "params_extra": pj["extra"],
    }


def global_state():
    """interpreter-wide state a solve could leak into (and thereby into later solves)"""
    import hashlib
    import logging
    import time as _time

    import pygradflow.linear_solver as LS
    import pygradflow.timer as T

    lg = logging.getLogger("gradflow")
    return {
        "numpy.geterr": tuple(sorted(np.geterr().items())),
        "numpy.printoptions": repr(sorted(np.get_printoptions().items())),
        "numpy.random.global_state": hashlib.sha256(np.random.get_state()[1].tobytes()).hexdigest()[:12],
        "logger.level": lg.level,
        "logger.handlers": len(lg.handlers),
        "logger.disabled": lg.disabled,
        "timer.time_is_time_module": T.time is _time,
        "linear_solver_factory": getattr(LS.linear_solver, "__qualname__", repr(LS.linear_solver)),
    }


def _bad_derivative_solve(pool, i):
    """an unrelated solve that ends in the deliberate DerivError (wrong gradient, derivative check on)"""
    from pygradflow.params import DerivCheck, Params
    from pygradflow.problem import Problem
    from pygradflow.solver import Solver

    inner = make_user_problem(pool["specs"][i % 3])

    class Wrong(Problem):
        def __init__(self):
            kw = dict(cons_lb=inner.cons_lb, cons_ub=inner.cons_ub) if inner.num_cons else {}
            super().__init__(inner.var_lb, inner.var_ub, **kw)

        def obj(self, x):
            return inner.obj(x)

        def obj_grad(self, x):
            g = np.array(inner.obj_grad(x), dtype=float)
            g[0] += 1.0
            return g

        def cons(self, x):
            return inner.cons(x)

        def cons_jac(self, x):
            return inner.cons_jac(x)

        def lag_hess(self, x, y):
            return inner.lag_hess(x, y)

    try:
        Solver(Wrong(), Params(deriv_check=DerivCheck.CheckAll, iteration_limit=3)).solve()
    except Exception:
        pass


def _integration_digest(pool, i, k, isolvers):
    """(sha256, short description) of an IntegrationSolver run; None when the 20 s alarm expired"""
    import hashlib

    from pygradflow.integration.integration_solver import IntegrationSolver
    from vf.trace import Timeout, alarm, result_bytes

    c = _case_for(pool, i, 0, k)
    c = dict(c, scaling={"kind": "none"})
    spec = c["spec"]
    x0, y0 = S.x0_array(spec, c["start"]), S.y0_array(spec, c["start"])
    try:
        if isolvers is not None and i in isolvers:
            solver = isolvers[i]
        else:
            problem, params, _, _ = SC.build(c, iteration_limit=25)
            solver = IntegrationSolver(problem, params)
            if isolvers is not None:
                isolvers[i] = solver
        with alarm(20):
            res = solver.solve(x0, y0)
        h = hashlib.sha256(result_bytes(res)).hexdigest()
        return (h, f"{res.status.name} after {res.iterations} iterations, x={np.asarray(res.x).tolist()}")
    except Timeout:
        if isolvers is not None:
            isolvers.pop(i, None)  # interrupted in the middle of a solve: do not use this object again
        return None
    except Exception as e:  # the integration solver's own failures are not C10's subject, but must repeat identically
        return (f"{type(e).__name__}:{e}", f"{type(e).__name__}: {str(e)[:80]}")


def check(case):
    pool, ops = case["pool"], case["ops"]
    isolvers = {}
    labels = []
    solvers = []  # (i, j, solver, problem, params)
    buffers = {}  # per re-used solver: start-point buffers overwritten in place between solves
    model = {}
    history = []  # keys in order
    reused_ok = False
    nsolves = 0
    state0 = global_state()

    params_objects = {}  # the caller keeps ONE Params object per configuration and builds every solver from it

    def build(c, i, j):
        problem, params, x0, y0 = SC.build(c)
        params = params_objects.setdefault((i, j), params)
        return problem, params, x0, y0

    def do_solve(i, j, k, solver_entry=None):
        nonlocal nsolves
        c = _case_for(pool, i, j, k)
        if solver_entry is None:
            problem, params, x0, y0 = build(c, i, j)
            solver = make_tracing_solver(problem, params)
        else:
            _, _, solver, problem, params = solver_entry
            x0, y0 = c["start"].get("x0"), c["start"].get("y0")
            # multi-start pattern: the caller re-uses one buffer per solver and overwrites it in place
            bufs = buffers.setdefault(id(solver), {})
            if isinstance(x0, list):
                xb = bufs.setdefault("x", np.zeros(len(x0)))
                xb[:] = x0
                x0 = xb
            if isinstance(y0, list):
                yb = bufs.setdefault("y", np.zeros(len(y0)))
                yb[:] = y0
                y0 = yb
        out = run_solve(problem, params, x0, y0, solver=solver)
        nsolves += 1
        return out

    for idx, op in enumerate(ops):
        kind = op[0]
        state_before = global_state()
        if idx > 0 and state_before != state0:
            changed = [k for k in state0 if state0[k] != state_before[k]]
            return violation(f"global-state-leak|{changed[0]}", f"after op {idx-1} {ops[idx-1]}: interpreter-wide state changed: " + "; ".join(f"{k}: {state0[k]} -> {state_before[k]}" for k in changed), labels, sub=nsolves)
        if kind == "badderiv":
            _bad_derivative_solve(pool, op[1])
            labels.append("bad_derivative_solve")
            continue
        if kind == "integ":
            # the flow-integration solver on the same pool: one IntegrationSolver object per problem is kept and re-used
            _, i, k, reuse = op
            i, k = i % 3, k % 2
            if pool["specs"][i]["n"] > 4:
                continue
            dg = _integration_digest(pool, i, k, isolvers if reuse else None)
            nsolves += 1
            if dg is None:
                labels.append("integration_timeout")
                continue
            key = ("I", i, k)
            labels.append("integration_solve")
            if key in model:
                if model[key][1] != dg:
                    return violation(f"history-dependence|integration|{'reused' if reuse else 'fresh'}", f"op {idx} {op}: IntegrationSolver result for problem {i}, start {k} differs from the first one at op {model[key][0]}: {dg[1]} vs {model[key][1][1]}", labels, sub=nsolves)
                labels.append("repeat:integration")
            else:
                model[key] = (idx, dg)
            continue
        try:
            if kind == "new":
                _, i, j = op
                c = _case_for(pool, i, j, 0)
                problem, params, _, _ = build(c, i, j)
                solvers.append((i, j, make_tracing_solver(problem, params), problem, params))
                continue
            if kind == "again":
                if not history:
                    continue
                i, j, k = history[op[1] % len(history)]
                ent = next((e for e in solvers if e[0] == i and e[1] == j), None)
                if ent is None:
                    c = _case_for(pool, i, j, 0)
                    problem, params, _, _ = build(c, i, j)
                    ent = (i, j, make_tracing_solver(problem, params), problem, params)
                    solvers.append(ent)
                    how = "fresh"
                else:
                    how = "reused"
                out = do_solve(i, j, k, ent)
            elif kind == "solve" and solvers:
                _, s, k = op
                ent = solvers[s % len(solvers)]
                i, j = ent[0], ent[1]
                out = do_solve(i, j, k, ent)
                how = "reused"
            elif kind in ("fresh", "solve", "other"):
                i, j, k = (op[1] % 3, op[2] % 3, op[3] % 2) if len(op) == 4 else (op[1] % 3, 0, op[2] % 2)
                out = do_solve(i, j, k)
                how = "fresh"
            else:
                continue
        except Exception as e:  # construction problems (e.g. scaling) are not C10's subject
            labels.append(f"excluded_op:{type(e).__name__}")
            continue
        key = (i, j, k)
        if key in model:
            first_idx, dg = model[key]
            between = len(history) - 1 - max(t for t, kk in enumerate(history) if kk == key)
            if out.digest != dg:
                a = out
                return violation(
                    f"history-dependence|{how}",
                    f"op {idx} {op}: solve of key {key} ({how} solver, {between} other solves since the last one) differs from its first solve at op {first_idx}: "
                    f"{a.result.status.name if a.result else repr(a.exc)} after {len(a.trials)} steps",
                    labels, sub=nsolves, key=list(key),
                )
            if between >= 1 and how == "reused":
                reused_ok = True
            labels.append(f"repeat:{how}")
        else:
            model[key] = (idx, out.digest)
        history.append(key)
        if out.exc is not None:
            labels.append("solve_raised")
    state_end = global_state()
    if state_end != state0:
        changed = [k for k in state0 if state0[k] != state_end[k]]
        return violation(f"global-state-leak|{changed[0]}", f"after the last op {ops[-1] if ops else None}: interpreter-wide state changed: " + "; ".join(f"{k}: {state0[k]} -> {state_end[k]}" for k in changed), labels, sub=nsolves)
    labels = sorted(set(labels)) + [f"solves:{'0' if nsolves == 0 else '1-5' if nsolves <= 5 else '6+'}"]
    if not reused_ok:
        return trivial("no_interleaved_repeat_on_reused_solver", labels, sub=nsolves)
    return ok(labels, True, sub=nsolves)


def machine(tier, sink, checkfn):
    from hypothesis.stateful import RuleBasedStateMachine, initialize, rule

    class SolveMachine(RuleBasedStateMachine):
        def __init__(self):
            super().__init__()
            self.pool = None
            self.ops = []

        @initialize(pool=pool_strategy())
        def init(self, pool):
            self.pool = pool

        @rule(i=st.integers(0, 2), j=st.integers(0, 2))
        def new_solver(self, i, j):
            self.ops.append(["new", i, j])

        @rule(s=st.integers(0, 5), k=st.integers(0, 1))
        def solve_existing(self, s, k):
            self.ops.append(["solve", s, k])

        @rule(i=st.integers(0, 2), j=st.integers(0, 2), k=st.integers(0, 1))
        def solve_fresh(self, i, j, k):
            self.ops.append(["fresh", i, j, k])

        @rule(i=st.integers(0, 2), j=st.integers(0, 2), k=st.integers(0, 1))
        def interleave_other(self, i, j, k):
            self.ops.append(["other", i, j, k])

        @rule(t=st.integers(0, 30))
        def solve_earlier_key_again(self, t):
            self.ops.append(["again", t])

        @rule(i=st.integers(0, 2), k=st.integers(0, 1), reuse=st.booleans())
        def solve_with_flow_integration_solver(self, i, k, reuse):
            self.ops.append(["integ", i, k, reuse])

        @rule(i=st.integers(0, 2))
        def solve_with_failing_derivative_check(self, i):
            self.ops.append(["badderiv", i])

        def teardown(self):
            if self.pool is None:
                return
            case = {"pool": self.pool, "ops": self.ops}
            sink(case, checkfn(case))

    return SolveMachine
