"""C15 -- step-size control: rejected steps shrink the step and keep the point.

Generated: problems x controller in {Exact, Fixed, ResiduumRatio, DistanceRatio} x Newton type x
lamb_inc in {2,4} x lamb_max in {1e12, 1e4, 64} (a small maximum makes the abort reachable) x
scaling none/custom; in a third of the cases a linear-solver failure is injected at a generated
factorisation / solve position (a *failed* step).

Oracle per pair of consecutive step computations (recorded by overriding Solver._compute_step):
a rejected or failed step (controller's accepted == False) is followed by a step from the same
iterate object and returned lambda > 1/dt; every step uses dt == 1.0/lambda returned by its
predecessor bit-for-bit and the first uses 1/lamb_init; once a returned lambda >= lamb_max the
solve raises the inverse-step-size error and computes no further step.  Exact control: every
accepted next iterate satisfies |F(z+; z, dt, rho)|_2 <= newton_tol + 1e-8 sqrt(N) (F = independent
implicit-Euler residual with the full box projection).  Every accepted iterate lies in the box.
"""

import numpy as np
from hypothesis import strategies as st

from vf import solvecase as SC
from vf import strategies as S
from vf.faults import linear_solver_faults
from vf.runner import excluded, ok, trivial, violation
from vf.spec import RefInternal
from vf.trace import make_tracing_solver, run_solve

ID = "C15"
LEVEL = "exploration"
BUDGET = {"quick": 35, "thorough": 800}
CASE_TIMEOUT = 90
RULE = (
    "case = (spec, start, params, scaling, lamb_max, optional injected linear-solver failure); "
    "every consecutive pair of step computations is one execution. distinct = SHA-256 of the case; "
    "non-trivial = >= 1 rejected/failed step followed later by an accepted one, or the lamb_max abort reached."
)
ASSUMPTIONS = [
    "'rejected' means the step controller's accepted=False (a penalty-filter veto is not a rejected step in C15's sense)",
    "Exact control: the implementation leaves projected components within 1e-8 of a bound unclipped, hence the 1e-8*sqrt(N) allowance",
]
NEWTON_TOL = 1e-8


def strategy(tier):
    @st.composite
    def _s(draw):
        case = draw(
            SC.solve_case(
                families=("nlp", "nlp", "qp", "degenerate", "infeasible", "concavebox"),
                max_n=4 if tier == "quick" else 6,
                max_m=3,
                scalings=("none", "none", "custom"),
                iteration_limit=100 if tier == "quick" else 300,
            )
        )
        case["params_extra"] = {"lamb_max": draw(st.sampled_from([1e12, 1e12, 1e4, 64.0]))}
        if draw(st.integers(0, 3)) == 0:
            # a raised lamb_min: the ratio controllers clamp to it, the exact controller passes below it
            case["params"]["lamb_min"] = draw(st.sampled_from([1e-3, 0.05, 0.5]))
        if draw(st.integers(0, 2)) == 0:
            case["fault"] = {"kind": draw(st.sampled_from(["fact", "solve"])), "k": draw(st.integers(0, 40))}
        return case

    return _s()


def check(case):
    spec = case["spec"]
    labels = SC.config_labels(case)
    lamb_max = case["params_extra"]["lamb_max"]
    labels.append(f"lamb_max:{lamb_max:g}")
    ctrl = case["params"].get("step_control_type", "DistanceRatio")
    try:
        problem, params, x0, y0 = SC.build(case)
        solver = make_tracing_solver(problem, params)
    except Exception as e:
        return excluded(f"build:{type(e).__name__}", labels)
    f = case.get("fault")
    kw = {}
    if f:
        kw = {"fail_fact": f["k"]} if f["kind"] == "fact" else {"fail_solve": f["k"]}
        labels.append(f"fault:{f['kind']}")
    with linear_solver_faults(**kw) as fac:
        out = run_solve(problem, params, x0, y0, solver=solver)
    if fac.fired:
        labels.append("fault_fired")
    trials = out.trials
    T = len(trials)
    vw, cw, ow = S.weights_of(solver, spec)
    ri = RefInternal(spec, vw, cw, ow)

    def V(clause, msg):
        return violation(f"{clause}|{ctrl}", msg, labels, sub=max(T - 1, 1))

    if out.exc is not None and not out.deliberate:
        # crashes are C06/C07's subject; the history up to the crash is still checked
        labels.append(f"crash:{out.exc_sig}")
    lamb_init = params.lamb_init
    aborted = False
    for t, tr in enumerate(trials):
        exp_dt = 1.0 / (lamb_init if t == 0 else trials[t - 1].lamb)
        if tr.dt != exp_dt:
            return V("dt-chain", f"step {t} used dt={tr.dt!r}, previous step returned lambda={None if t == 0 else trials[t-1].lamb!r} (1/lambda={exp_dt!r})")
        if tr.lamb is None:
            continue  # this trial raised
        if not (tr.lamb > 0):
            return V("lambda-positive", f"step {t} returned lambda={tr.lamb!r}")
        if tr.accepted is False:
            if not tr.lamb > 1.0 / tr.dt:
                return V("rejected-lambda-not-increased", f"step {t} rejected/failed with dt={tr.dt!r} (lambda {1.0/tr.dt!r}) but returned lambda={tr.lamb!r}")
            if tr.it_out is not tr.it_in:
                # the controller may hand back the partial point, but the solver must not adopt it
                pass
            if t + 1 < T and trials[t + 1].it_in is not tr.it_in:
                return V("rejected-point-changed", f"step {t} rejected/failed but step {t+1} starts from a different iterate")
        else:
            lbi, ubi = ri.var_lb, ri.var_ub
            xo = np.frombuffer(tr.x_out)
            if not (np.all(xo >= lbi) and np.all(xo <= ubi)):
                return V("accepted-outside-box", f"accepted step {t} leaves the box: x+={xo.tolist()} bounds {lbi.tolist()},{ubi.tolist()}")
            if ctrl == "Exact":
                X0, Y0 = np.frombuffer(tr.x_in), np.frombuffer(tr.y_in)
                Xn, Yn = xo, np.frombuffer(tr.y_out)
                F = ri.euler_residual(Xn, Yn, X0, Y0, tr.dt, tr.rho)
                g_scale = float(np.sum(np.abs(Xn)) + np.sum(np.abs(X0)) + tr.dt * np.sum(np.abs(ri.aug_lag_dx(Xn, Yn, tr.rho))) + np.sum(np.abs(Yn)) + np.sum(np.abs(Y0)) + tr.dt * np.sum(np.abs(ri.cons(Xn))))
                bound = params.newton_tol * (1 + 1e-6) + 1e-8 * np.sqrt(ri.N) + 1e-12 * g_scale
                fn = float(np.linalg.norm(F))
                if not fn <= bound:
                    return V("exact-residual", f"Exact control accepted step {t} with |F(z+)|={fn:.3e} > {bound:.3e} (dt={tr.dt}, rho={tr.rho})")
        if tr.lamb >= lamb_max:
            aborted = True
            if t + 1 < T:
                return V("step-after-lamb-max", f"step {t} returned lambda={tr.lamb!r} >= lamb_max={lamb_max!r} but {T - t - 1} more step(s) were computed")
            if out.exc is None or not str(out.exc).startswith("Inverse step size"):
                ended = repr(out.exc) if out.exc else out.result.status.name
                return V("no-abort-at-lamb-max", f"step {t} returned lambda={tr.lamb!r} >= lamb_max={lamb_max!r} but solve ended with {ended}")
    if out.exc is not None and str(out.exc).startswith("Inverse step size") and not aborted:
        return V("abort-without-lamb-max", f"inverse-step-size error raised but no step returned lambda >= {lamb_max}")
    rej = [t for t, tr in enumerate(trials) if tr.accepted is False]
    recovered = any(any(tr.accepted for tr in trials[t + 1 :]) for t in rej)
    if rej:
        labels.append("has_rejection")
    if aborted:
        labels.append("abort_reached")
    if not (recovered or aborted):
        return trivial("no_rejection_recovered_or_abort", labels, sub=max(T - 1, 1))
    return ok(labels, True, sub=max(T - 1, 1))
