"""C06 -- solve() ends with a status or a deliberate error, never an internal crash.

Generated: every problem family (well-posed, infeasible, unbounded, degenerate, fixed variables,
zero constraints, n = 1), in-bounds starts (also None / scalar x0, huge y0), and the full option
product *including combinations*: Newton type x step solver x linear solver x controller x
penalty x active-set rule (Explicit with tau) x scaling x reporting options (report_rcond,
collect_path, display_interval 0 / default), extreme rho and lamb_init.

Oracle: the outcome is a result with one of the five statuses and finite x, y, d, or one of the
deliberate exceptions (initial point cannot be evaluated / inverse step size exceeded / line
search failed / DerivError).  Anything else is a violation whose signature is (exception type,
innermost pygradflow module.function) -- function, not line, so it survives unrelated edits.
"""

import numpy as np
from hypothesis import strategies as st

from vf import solvecase as SC
from vf.runner import excluded, ok, trivial, violation
from vf.trace import make_tracing_solver, run_solve

ID = "C06"
LEVEL = "exploration"
BUDGET = {"quick": 40, "thorough": 1500}
CASE_TIMEOUT = 120
RULE = (
    "case = (spec from any family, start, params incl. reporting options, scaling); distinct = "
    "SHA-256 of the case; non-trivial = the run performed >= 3 step computations and uses >= 1 "
    "non-default option."
)
ASSUMPTIONS = [
    "finite smooth problem functions by construction (polynomial + sin/cos data)",
    "Solver.__init__ (scaling computation) is outside the statement, which speaks about solve(); construction failures are excluded and counted",
]
SHRINK_BUDGET = {"quick": 40, "thorough": 200}


def strategy(tier):
    @st.composite
    def _s(draw):
        case = draw(
            SC.solve_case(
                families=("nlp", "nlp", "qp", "degenerate", "infeasible", "unbounded", "patternvar", "intbox", "concavebox", "convexbox", "convexbox"),
                max_n=4 if tier == "quick" else 6,
                max_m=3,
                iteration_limit=150 if tier == "quick" else draw(st.sampled_from([300, 300, 1000])),
            )
        )
        extra = {}
        if draw(st.booleans()):
            extra["report_rcond"] = True
        if draw(st.booleans()):
            extra["collect_path"] = True
        extra["display_interval"] = draw(st.sampled_from([0.0, 0.1]))
        if draw(st.integers(0, 3)) == 0:
            extra["obj_lower_limit"] = -1e3
        if draw(st.integers(0, 5)) == 0:
            extra["lamb_max"] = 1e4
        if draw(st.integers(0, 2)) == 0:
            extra["precision"] = "Single"  # a documented Params option: "precision to be used in all calculations"
        case["params_extra"] = extra
        return case

    return _s()


def check(case):
    labels = SC.config_labels(case)
    ex = case.get("params_extra", {})
    for k in ("report_rcond", "collect_path"):
        if ex.get(k):
            labels.append(k)
    if ex.get("precision"):
        labels.append("precision:Single")
    if case["params"].get("linear_solver_type") != "LU" and ex.get("report_rcond"):
        labels.append("pair:rcond+iterative")
    if "Filter" in case["params"].get("penalty_update", "") and case["params"].get("step_control_type") == "Fixed":
        labels.append("pair:filter+fixed")
    try:
        problem, params, x0, y0 = SC.build(case)
        solver = make_tracing_solver(problem, params)
    except Exception as e:
        return excluded(f"build:{type(e).__name__}", labels)
    out = run_solve(problem, params, x0, y0, solver=solver)
    n_trials = len(out.trials)
    if out.exc is not None:
        if out.deliberate:
            labels.append("deliberate:" + str(out.exc)[:22].replace(" ", "_"))
            return ok(labels, n_trials >= 3, sub=1, trials=n_trials)
        return violation(
            f"crash|{out.exc_sig}",
            f"{type(out.exc).__name__}: {str(out.exc)[:200]} escaped solve() from {out.exc_sig} after {n_trials} step computations",
            labels,
        )
    res = out.result
    labels.append(f"status:{res.status.name}")
    for nm, v in (("x", res.x), ("y", res.y), ("d", res.d)):
        if not np.all(np.isfinite(np.asarray(v, dtype=float))):
            return violation(f"nonfinite-result|{nm}|{res.status.name}", f"result.{nm} = {np.asarray(v).tolist()} with status {res.status.name}", labels)
    if n_trials < 3:
        return trivial("lt_3_trials", labels)
    return ok(labels, True, trials=n_trials)
