"""C04 -- the internally solved problem is an exact reformulation of the user's problem.

Generated: any spec (ordinary and wide-magnitude data m*2^e, e in [-40,40]); custom integer
weights vw, cw in [-60,60], ow in [-20,20] and the automatically computed scalings (Nominal /
GradJac / KKT at a generated point); COO/CSR/CSC callbacks; dyadic evaluation points X (internal
dimension) and multipliers Y.

Oracle: the independent reference transformation ``RefInternal`` (power-of-two change of variables
+ slack / offset embedding, written from the definition).  Objective, gradient, constraints,
Jacobian, Lagrangian Hessian and bounds are compared with ``numpy.array_equal`` (bit-for-bit: every
scale factor is a power of two and the reference performs the same single addition for offsets /
slacks); round trip user -> internal -> user returns exactly (x, y); starting slacks are the
projection of the scaled c(x0) onto the scaled row bounds.
"""

import numpy as np
from hypothesis import strategies as st

from vf import strategies as S
from vf.runner import excluded, ok, trivial, violation
from vf.spec import Ref, RefInternal, make_user_problem

ID = "C04"
LEVEL = "exploration"
BUDGET = {"quick": 400, "thorough": 8000}
RULE = (
    "case = (spec, scaling, evaluation points X/Y, user points x/y); distinct = SHA-256 of the case; "
    "non-trivial = some scaling weight != 0 and (a slack row or a non-zero equality offset), i.e. "
    "the composed scale+slack pipeline rather than a single layer."
)
ASSUMPTIONS = [
    "magnitudes are bounded so that no intermediate over- or underflows ('absent overflow' in the statement)",
    "callbacks return fresh objects (aliasing of cached objects is C11's subject)",
]


@st.composite
def dyadic(draw, emin=-30, emax=30):
    m = draw(st.integers(-32, 32))
    e = draw(st.integers(emin, emax))
    return float(np.ldexp(m / 16.0, e))


@st.composite
def widen(draw, spec):
    """multiply groups of data by powers of two (wide-magnitude family)"""
    n, m = spec["n"], spec["m"]
    ev = draw(st.lists(st.integers(-40, 40), min_size=n, max_size=n))
    er = draw(st.lists(st.integers(-40, 40), min_size=m, max_size=m))
    A = np.array(spec["A"], dtype=float).reshape(m, n)
    A = A * np.ldexp(1.0, np.array(er, dtype=int))[:, None] * np.ldexp(1.0, np.array(ev, dtype=int))[None, :] if m else A
    spec = dict(spec)
    spec["A"] = A.tolist()
    spec["q"] = (np.array(spec["q"]) * np.ldexp(1.0, np.array(ev, dtype=int))).tolist()
    spec["b"] = (np.array(spec["b"]) * np.ldexp(1.0, np.array(er, dtype=int))).tolist() if m else []
    for k in ("cl", "cu"):
        spec[k] = (np.array(spec[k]) * np.ldexp(1.0, np.array(er, dtype=int))).tolist() if m else []
    spec["family"] = "wide:" + spec.get("family", "nlp")
    return spec


def strategy(tier):
    @st.composite
    def _s(draw):
        # (intbox: integer-valued variable bounds handed over as integer-typed arrays)
        spec = draw(S.any_spec(families=("nlp", "nlp", "qp", "qp", "degenerate", "infeasible", "intbox"), max_n=4 if tier == "quick" else 6, max_m=3))
        if draw(st.booleans()):
            spec = draw(widen(spec))
        n, m = spec["n"], spec["m"]
        if draw(st.integers(0, 4)) == 0:
            # data written with integer literals (an LP/QP given by integer matrices): the callbacks
            # return integer-typed sparse matrices
            spec = dict(spec)
            spec["Q"] = np.round(np.array(spec["Q"], dtype=float) * 4).tolist()
            spec["A"] = np.round(np.array(spec["A"], dtype=float).reshape(m, n) * 4).tolist()
            for k in ("w", "v", "Hc", "u", "T"):
                spec.pop(k, None)
            spec["fmt"] = dict(spec.get("fmt") or {}, jac_style="int", hess_style="int")
            spec["family"] = "intdata:" + spec.get("family", "nlp")
        pattern_varying = m > 0 and draw(st.integers(0, 2)) == 0
        if pattern_varying:
            # Jacobian entries J_ij = h_ij * x_j vanish exactly where x_j = 0: the sparsity pattern the
            # callbacks return changes from point to point while the number of stored entries may not
            spec = dict(spec)
            spec["A"] = [[0.0] * n for _ in range(m)]
            spec["Hc"] = [np.diag([draw(st.sampled_from([-2.0, -0.5, 0.0, 1.0, 3.0])) for _ in range(n)]).tolist() for _ in range(m)]
            spec.pop("u", None), spec.pop("T", None)
            spec["shift"] = [0.0] * n
            spec["family"] = "patternvar:" + spec.get("family", "nlp")
        kind = draw(st.sampled_from(["custom", "custom", "custom", "none", "nominal", "gradjac", "kkt"]))
        if kind == "custom":
            zv, zc, zo = (draw(st.integers(0, 3)) == 0 for _ in range(3))
            scaling = {
                "kind": "custom",
                "vw": [0] * n if zv else draw(st.lists(st.integers(-60, 60), min_size=n, max_size=n)),
                "cw": [0] * m if zc else draw(st.lists(st.integers(-60, 60), min_size=m, max_size=m)),
                "ow": 0 if zo else draw(st.integers(-20, 20)),
                # Scaling accepts int8/int16/int32/int64 weight arrays
                "wdtype": draw(st.sampled_from(["int64", "int64", "int32", "int16", "int8"])),
            }
        elif kind == "none":
            scaling = {"kind": "none"}
        else:
            scaling = {"kind": kind, "primal": [draw(dyadic(-6, 6)) for _ in range(n)], "dual": [draw(dyadic(-6, 6)) for _ in range(m)]}
        if draw(st.integers(0, 2)) == 0:
            # callbacks that hand out one memoised object per argument: every point is evaluated twice (through the
            # problem and through the evaluator), so an object rescaled in place by the first evaluation shows in the second
            spec = dict(spec)
            spec["policy"] = {k: draw(st.sampled_from(["memo", "memo", "fresh"])) for k in ("obj_grad", "cons", "cons_jac", "lag_hess")}
        r = Ref(spec)
        ns = sum(1 for i in range(m) if r.cl[i] != r.cu[i])
        pts = []
        for _ in range(draw(st.integers(1, 3)) + (2 if pattern_varying else 0)):
            X = [draw(dyadic()) for _ in range(n + ns)]
            if pattern_varying:
                zeros = draw(st.lists(st.booleans(), min_size=n, max_size=n))
                X = [0.0 if (j < n and zeros[j]) else v for j, v in enumerate(X)]
            pts.append({"X": X, "Y": [draw(dyadic()) for _ in range(m)]})
        upts = []
        for _ in range(draw(st.integers(1, 2))):
            u = {"x": [draw(dyadic(-10, 10)) for _ in range(n)], "y": [draw(dyadic(-10, 10)) for _ in range(m)],
                 "d": [draw(dyadic(-10, 10)) for _ in range(n + ns)]}
            if draw(st.integers(0, 3)) == 0:
                # a start point given with an integer dtype (x0 = np.array([1, 2]) or a plain int)
                u["x"] = [float(draw(st.integers(-3, 3))) for _ in range(n)]
                u["x_dtype"] = "int"
            upts.append(u)
        return {"spec": spec, "scaling": scaling, "points": pts, "upoints": upts}

    return _s()


def _dense(M):
    return np.asarray(M.toarray() if hasattr(M, "toarray") else M, dtype=float)


def _eq(a, b):
    a = np.asarray(a, dtype=float)
    b = np.asarray(b, dtype=float)
    return a.shape == b.shape and np.array_equal(a, b)


def check(case):
    from pygradflow.transform import Transformation

    spec, scaling = case["spec"], case["scaling"]
    labels = [f"scaling:{scaling['kind']}", f"family:{spec.get('family', 'nlp').split(':')[0]}", f"fmt:{spec.get('fmt', {}).get('jac', 'coo')}"]
    problem = make_user_problem(spec)
    try:
        params = S.build_params({}, scaling)
        tr = Transformation(problem, params)
    except Exception as e:
        if scaling["kind"] in ("kkt", "nominal", "gradjac"):
            # computing an automatic scaling is C20's subject; C04 speaks about the weights once
            # they exist ("custom and automatically computed")
            return excluded(f"automatic_scaling_raised:{type(e).__name__}", labels)
        return violation(f"transformation-raises-{type(e).__name__}", f"{type(e).__name__}: {e}", labels)
    vw, cw, ow = S.weights_of(tr, spec)
    if np.max(np.abs(vw), initial=0) > 200 or np.max(np.abs(cw), initial=0) > 200:
        return excluded("automatic_weights_huge", labels)
    ri = RefInternal(spec, vw, cw, ow)
    r = ri.ref
    n, m = r.n, r.m
    tp = tr.trans_problem
    ev = tr.evaluator
    sub = 0
    sig_extra = f"|scaling={scaling['kind'] != 'none'}"

    def bad(clause, msg):
        return violation(clause + sig_extra, msg, labels, weights=[vw.tolist(), cw.tolist(), ow])

    # bounds and dimensions
    if tp.num_vars != ri.N or tp.num_cons != m:
        return bad("dimensions", f"internal dims ({tp.num_vars},{tp.num_cons}) != reference ({ri.N},{m})")
    if not (_eq(tp.var_lb, ri.var_lb) and _eq(tp.var_ub, ri.var_ub)):
        return bad("bounds", f"internal bounds {tp.var_lb},{tp.var_ub} != reference {ri.var_lb},{ri.var_ub}")
    if not (_eq(tp.cons_lb, np.zeros(m)) and _eq(tp.cons_ub, np.zeros(m))):
        return bad("row-bounds", f"internal row bounds not 0=0: {tp.cons_lb},{tp.cons_ub}")
    with np.errstate(all="ignore"):
        for P in case["points"]:
            X = np.array(P["X"], dtype=float)
            Y = np.array(P["Y"], dtype=float)
            if X.shape != (ri.N,):
                return excluded("point_dimension", labels)
            exp = {"obj": ri.obj(X), "grad": ri.grad(X), "cons": ri.cons(X), "jac": ri.jac(X), "hess": ri.hess(X, Y)}
            if not all(np.all(np.isfinite(v)) for v in exp.values()):
                return excluded("overflow_in_reference", labels)
            for name, via in (("problem", tp), ("evaluator", ev)):
                try:
                    got = {
                        "obj": via.obj(X),
                        "grad": via.obj_grad(X),
                        "cons": via.cons(X) if m > 0 or name == "evaluator" else np.zeros(0),
                        "jac": _dense(via.cons_jac(X)) if m > 0 or name == "evaluator" else np.zeros((0, ri.N)),
                        "hess": _dense(via.lag_hess(X, Y)),
                    }
                except Exception as e:
                    from vf.trace import exc_signature

                    return bad(f"evaluation-raises|{exc_signature(e)}", f"evaluating the internal problem via {name} at X={X.tolist()} raised {type(e).__name__}: {e}")
                sub += 1
                for k in ("obj", "grad", "cons", "jac", "hess"):
                    if not _eq(got[k], exp[k]):
                        return bad(f"{k}-mismatch", f"{k} via {name} at X={X.tolist()} Y={Y.tolist()}: got {np.asarray(got[k]).tolist()} expected {np.asarray(exp[k]).tolist()}")
        # round trip + start slacks
        for U in case["upoints"]:
            x = np.array(U["x"], dtype=float)
            y = np.array(U["y"], dtype=float)
            D = np.array(U["d"], dtype=float)
            if D.shape != (ri.N,):
                return excluded("point_dimension", labels)
            Xe, Ye = ri.to_internal(x, y)
            if not (np.all(np.isfinite(Xe)) and np.all(np.isfinite(Ye))):
                return excluded("overflow_in_reference", labels)
            try:
                Xi, Yi = tr.transform_sol(x.copy(), y.copy())
            except Exception as e:
                return bad(f"transform_sol-raises-{type(e).__name__}", f"{e}")
            sub += 1
            if not _eq(Xi[:n], Xe[:n]):
                return bad("transform-primal", f"scaled x {Xi[:n].tolist()} != {Xe[:n].tolist()}")
            if not _eq(Xi[n:], Xe[n:]):
                return bad("start-slacks", f"start slacks {Xi[n:].tolist()} != projection {Xe[n:].tolist()} of scaled c(x0) onto scaled row bounds")
            if not _eq(Yi, Ye):
                return bad("transform-dual", f"scaled y {Yi.tolist()} != {Ye.tolist()}")
            xb, yb, db = tr.restore_sol(Xi, Yi, D)
            xe, ye, de = ri.to_user(Xi, Yi, D)
            if not (_eq(xb, x) and _eq(yb, y)):
                return bad("round-trip", f"user->internal->user gives x={np.asarray(xb).tolist()} y={np.asarray(yb).tolist()} for x={x.tolist()} y={y.tolist()}")
            if not _eq(db, de):
                return bad("restore-bounds-dual", f"restored d {np.asarray(db).tolist()} != {de.tolist()}")
            # the iterate handed to the algorithm
            it = tr.create_transformed_iterate(x.copy(), y.copy())
            if not (_eq(it.x, Xe) and _eq(it.y, Ye)):
                return bad("transformed-iterate", f"create_transformed_iterate gives {it.x.tolist()},{it.y.tolist()} expected {Xe.tolist()},{Ye.tolist()}")
            if U.get("x_dtype") == "int":
                xi = np.array(U["x"], dtype=np.int64)
                it2 = tr.create_transformed_iterate(xi, y.copy())
                sub += 1
                if not (_eq(it2.x, Xe) and _eq(it2.y, Ye)):
                    return bad("transformed-iterate-int-start", f"integer-typed x0 {xi.tolist()}: create_transformed_iterate gives {it2.x.tolist()} expected {Xe.tolist()} (start slacks = projection of scaled c(x0))")
                if len(set(U["x"])) == 1:
                    it3 = tr.create_transformed_iterate(int(U["x"][0]), y.copy())
                    if not (_eq(it3.x, Xe) and _eq(it3.y, Ye)):
                        return bad("transformed-iterate-int-start", f"scalar int x0 {int(U['x'][0])}: create_transformed_iterate gives {it3.x.tolist()} expected {Xe.tolist()}")
    nonzero_w = bool(np.any(vw != 0) or np.any(cw != 0) or ow != 0)
    composed = ri.ns > 0 or bool(np.any(ri.offset != 0))
    if ri.ns:
        labels.append("has_slack")
    if np.any(ri.offset != 0):
        labels.append("has_offset")
    if not (nonzero_w and composed):
        return trivial("single_layer", labels, sub=sub)
    return ok(labels, True, sub=sub)
