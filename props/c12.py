"""C12 -- counters, callbacks and the recorded path tell one consistent story.

Generated: problems x full option product with emphasis on veto-capable penalty policies
(Objective / Lagrangian filter) and collect_path=True; scaling none / custom.

Oracle over the whole history (per-trial records from a Solver._compute_step override, the
ComputedStep callbacks, and the result): iterations == #callbacks == #step computations; the
k-th callback announces exactly the k-th step computation (same iterate objects, same accepted
flag); each step starts from the previously adopted point, the first from the transformed x0
(independent reference transformation); num_accepted_steps == number of times the current iterate
actually changed; the returned solution is the last adopted iterate mapped back.  With path
collection: one column per adoption plus the start, in order and bit-identical; model times
increase by exactly the step size dt used by each adopted step; dist_factor >= 1 (up to 1e-9).
"""

import numpy as np
from hypothesis import strategies as st

from vf import solvecase as SC
from vf import strategies as S
from vf.history import adoptions, last_adopted_iterate
from vf.runner import excluded, ok, trivial, violation
from vf.spec import RefInternal
from vf.trace import make_tracing_solver, run_solve

ID = "C12"
LEVEL = "exploration"
BUDGET = {"quick": 35, "thorough": 800}
CASE_TIMEOUT = 90
RULE = (
    "case = (spec, start, params biased to filter penalties, scaling none/custom, collect_path); "
    "every step computation of the run is one execution. distinct = SHA-256 of the case; "
    "non-trivial = the history contains >= 1 penalty veto or >= 1 controller rejection, and >= 3 adoptions."
)
ASSUMPTIONS = ["object identity of Iterate instances identifies 'the iterate changed'"]


def strategy(tier):
    @st.composite
    def _s(draw):
        pens = ["ObjectiveFilter", "LagrangianFilter", "ObjectiveFilter", "LagrangianFilter"] + S.PENALTIES
        case = draw(
            SC.solve_case(
                families=("nlp", "nlp", "qp", "degenerate", "infeasible"),
                max_n=4 if tier == "quick" else 6,
                max_m=3,
                scalings=("none", "none", "custom"),
                params_kw={"penalties": pens},
                iteration_limit=draw(st.sampled_from([30, 120])) if tier == "quick" else 400,
            )
        )
        case["params_extra"] = {"collect_path": draw(st.sampled_from([True, True, False]))}
        if draw(st.integers(0, 3)) == 0:
            case["params_extra"]["precision"] = "Single"  # the history clauses hold in either working precision
        return case

    return _s()


def check(case):
    spec = case["spec"]
    labels = SC.config_labels(case)
    collect = case["params_extra"].get("collect_path", False)
    labels.append(f"collect_path:{collect}")
    try:
        problem, params, x0, y0 = SC.build(case)
        solver = make_tracing_solver(problem, params)
    except Exception as e:
        return excluded(f"build:{type(e).__name__}", labels)
    from pygradflow.callbacks import CallbackType

    out = run_solve(problem, params, x0, y0, solver=solver)
    first = _judge(case, spec, solver, out, labels, collect, "first solve", None)
    if first["status"] == "violation" or out.exc is not None:
        return first
    # second solve on the same Solver with one more observer registered in between: every registered
    # observer must be told about every step computation, and the whole story must be consistent again
    late = []
    solver.callbacks.register(CallbackType.ComputedStep, lambda it, nit, acc: late.append((it, nit, bool(acc))))
    out2 = run_solve(problem, params, x0, y0, solver=solver)
    second = _judge(case, spec, solver, out2, labels, collect, "second solve on the same Solver", late)
    if second["status"] == "violation":
        return second
    first["sub"] = first.get("sub", 0) + second.get("sub", 0)
    first["labels"] = first["labels"] + ["resolved_with_late_observer"]
    return first


def _judge(case, spec, solver, out, labels0, collect, which, late):
    labels = list(labels0)
    trials, cbs = out.trials, out.cb
    T = len(trials)
    pen = case["params"].get("penalty_update")

    def V(clause, msg):
        tag = "" if which == "first solve" else "|resolve"
        return violation(f"{clause}{tag}", f"[{which}] {msg}", labels, sub=T)

    if late is not None and out.exc is None:
        if len(late) != T:
            return V("late-observer-not-notified", f"an observer registered between two solves received {len(late)} announcements for {T} step computations")
        for k, (it, nit, acc) in enumerate(late):
            if it is not trials[k].it_in or nit is not trials[k].it_out or acc != trials[k].accepted:
                return V("late-observer-content", f"announcement #{k} to the late observer does not match step computation #{k}")

    # callbacks announce exactly the computed steps (also for runs ending in an exception,
    # except for the trial that raised / the trial whose lambda triggered the abort)
    done = [t for t in trials if t.it_out is not None]
    if out.exc is None and len(cbs) != T:
        return V("callbacks-vs-trials", f"{len(cbs)} ComputedStep callbacks for {T} step computations")
    for k, (it, nit, acc) in enumerate(cbs):
        tr = trials[k]
        if it is not tr.it_in or nit is not tr.it_out or bool(acc) != tr.accepted:
            return V("callback-content", f"callback #{k} does not announce step computation #{k} (same input: {it is tr.it_in}, same output: {nit is tr.it_out}, accept {acc} vs {tr.accepted})")
    # first step starts from the transformed start point
    vw, cw, ow = S.weights_of(solver, spec)
    ri = RefInternal(spec, vw, cw, ow)
    wdt = np.dtype(solver.params.dtype)  # working precision of the iterates (float32 under Precision.Single)

    def FB(buf):
        return np.frombuffer(buf, dtype=wdt)

    if T >= 1:
        X0, Y0 = ri.to_internal(S.x0_array(spec, case["start"]), S.y0_array(spec, case["start"]))
        X0, Y0 = X0.astype(wdt), Y0.astype(wdt)
        if not (np.array_equal(FB(trials[0].x_in), X0) and np.array_equal(FB(trials[0].y_in), Y0)):
            return V("first-step-start", f"first step starts from x={FB(trials[0].x_in).tolist()} y={FB(trials[0].y_in).tolist()}, transformed start is {X0.tolist()},{Y0.tolist()}")
    adopted = adoptions(trials, out.result, solver)
    for t in range(T - 1):
        tr, nx = trials[t], trials[t + 1]
        if nx.it_in is not tr.it_out and nx.it_in is not tr.it_in:
            return V("step-start-unknown", f"step {t+1} starts from an iterate that is neither input nor output of step {t}")
        if not tr.accepted and nx.it_in is not tr.it_in:
            return V("rejected-step-adopted", f"step {t} was not accepted but step {t+1} starts from a different iterate")
    if out.exc is not None:
        labels.append("raised:" + ("deliberate" if out.deliberate else str(out.exc_sig)))
        return trivial("raised", labels, sub=T)
    res = out.result
    labels.append(f"status:{res.status.name}")
    if res.iterations != T:
        return V("iterations-vs-trials", f"result.iterations={res.iterations} but {T} step computations")
    n_ad = sum(1 for a in adopted if a)
    amb = sum(1 for a in adopted if a is None)
    if not (n_ad <= res.num_accepted_steps <= n_ad + amb):
        return V("accepted-count", f"num_accepted_steps={res.num_accepted_steps} but the iterate changed {n_ad} times (+{amb} undecidable) in {T} steps")
    vetoes = sum(1 for t in range(T - 1) if trials[t].accepted and trials[t + 1].it_in is trials[t].it_in and trials[t].it_out is not trials[t].it_in)
    rejections = sum(1 for t in trials if t.accepted is False)
    # result == last adopted iterate mapped back
    if amb == 0 and T >= 1:
        last = last_adopted_iterate(trials, adopted)
        xe, ye, de = ri.to_user(last.x, last.y, last.bounds_dual)
        if not (np.array_equal(res.x, xe) and np.array_equal(res.y, ye) and np.array_equal(res.d, de)):
            return V("result-not-last-adopted", f"result x={np.asarray(res.x).tolist()} y={np.asarray(res.y).tolist()} is not the last adopted iterate {xe.tolist()} {ye.tolist()}")
    if res.dist_factor is None or not (res.dist_factor >= 1.0 - (1e-9 if wdt == np.float64 else 1e-4)):
        return V("dist-factor", f"dist_factor={res.dist_factor!r} < 1")
    if collect:
        path, times = res.path, res.model_times
        if path is None or times is None:
            return V("path-missing", "collect_path=True but result.path is None")
        exp_cols = res.num_accepted_steps + 1
        if path.shape != (ri.N + ri.ref.m, exp_cols) or times.shape != (exp_cols,):
            return V("path-shape", f"path shape {path.shape}, model_times {times.shape}; expected {(ri.N + ri.ref.m, exp_cols)}")
        if amb == 0:
            cols = [np.concatenate([FB(trials[0].x_in), FB(trials[0].y_in)])] if T else []
            dts = []
            for tr, a in zip(trials, adopted):
                if a:
                    cols.append(np.concatenate([FB(tr.x_out), FB(tr.y_out)]))
                    dts.append(tr.dt)
            if T == 0:
                cols = [path[:, 0]]
            for k, col in enumerate(cols):
                if not np.array_equal(path[:, k], col):
                    return V("path-column", f"path column {k} is not the {k}-th adopted iterate")
            if times[0] != 0.0:
                return V("model-time-start", f"model_times[0]={times[0]!r}")
            got = np.diff(times)
            for k, dtk in enumerate(dts):
                # times are accumulated: compare the increment up to one rounding of the partial sum
                if abs(got[k] - dtk) > 4e-16 * max(abs(times[k + 1]), abs(dtk)):
                    return V("model-time-increment", f"model time increment #{k} is {got[k]!r} but the adopted step used dt={dtk!r} (times={times[: k + 2].tolist()})")
    if vetoes:
        labels.append("has_veto")
    if rejections:
        labels.append("has_rejection")
    if not ((vetoes or rejections) and n_ad >= 3):
        return trivial("no_veto_or_rejection_or_lt_3_adoptions", labels, sub=T)
    return ok(labels, True, sub=T)
