"""C08 -- stopping early returns exactly a prefix of the unlimited run.

Generated: problem x configuration (all four controllers; filter penalties included; scaling
none/custom).  A reference run is made with a generous iteration budget under a virtual clock
that never advances; it records T step computations and R clock reads.  Then, *inside the case*,
every iteration budget k in 0..T and every deadline position j in 0..R (virtual clock jumps past
the deadline at the j-th read, time_limit=1 -- also between the Newton iterations of the Exact
controller) is enumerated.

Oracle: the limited run's step computations are a bit-identical prefix of the reference run's,
optionally followed (deadline only) by one step that was discarded (accepted=False, iterate
unchanged); the returned x, y, d are those of the last iterate adopted in that prefix (computed
from the reference run's objects), iterations == number of step computations, num_accepted_steps
== adoptions in the prefix; status IterationLimit / TimeLimit unless the reference run itself ended
earlier.
"""

import numpy as np
from hypothesis import strategies as st

from vf import solvecase as SC
from vf.clock import StepClock, virtual_clock
from vf.history import adoptions
from vf.runner import excluded, ok, trivial, violation
from vf.trace import make_tracing_solver, run_solve, trial_bytes

ID = "C08"
LEVEL = "fault_enumeration"
BUDGET = {"quick": 12, "thorough": 80}
CASE_TIMEOUT = 600
RULE = (
    "case = (spec, start, params, scaling, reference budget); inside each case every iteration "
    "budget 0..T and every deadline position 0..R is executed (executions = number of limited "
    "runs). distinct = SHA-256 of the case; non-trivial = the reference run has >= 1 adopted and "
    ">= 1 rejected step and T >= 4, so that stops fall strictly inside a run with both kinds."
)
ASSUMPTIONS = [
    "the deadline is modelled by the virtual clock: every position in the sequence of clock reads is enumerated for a sampled run",
    "a solve is deterministic (C10), so the reference run is a valid oracle for the limited ones",
]
SHRINK_BUDGET = {"quick": 60, "thorough": 240}


def strategy(tier):
    @st.composite
    def _s(draw):
        case = draw(
            SC.solve_case(
                families=("nlp", "nlp", "qp", "infeasible"),
                max_n=4,
                max_m=2,
                scalings=("none", "none", "custom"),
                iteration_limit=None,
                params_kw={"controllers": ["Exact", "Exact", "Fixed", "ResiduumRatio", "DistanceRatio"]},
            )
        )
        case["tmax"] = draw(st.integers(6, 20 if tier == "quick" else 60))
        # large first steps make rejections (mixed histories) likely
        case["params"]["lamb_init"] = draw(st.sampled_from([1e-3, 1e-2, 0.1, 1.0]))
        case["params_extra"] = {"display_interval": draw(st.sampled_from([0.0, 0.1]))}
        return case

    return _s()


def _run(case, limit, expire_at, time_limit):
    problem, params, x0, y0 = SC.build(case, iteration_limit=limit, time_limit=time_limit)
    solver = make_tracing_solver(problem, params)
    clock = StepClock(expire_at)
    with virtual_clock(clock):
        out = run_solve(problem, params, x0, y0, solver=solver)
    return out, clock


def _expected_result(ref, adopted_ref, k):
    """restore_sol of the last iterate adopted within the first k trials of the reference run"""
    it = ref.trials[0].it_in if ref.trials else None
    n_ad = 0
    for t in range(k):
        if adopted_ref[t]:
            it = ref.trials[t].it_out
            n_ad += 1
    return it, n_ad


def check(case):
    from pygradflow.status import SolverStatus

    labels = SC.config_labels(case)
    ctrl = case["params"].get("step_control_type")
    tmax = int(case["tmax"])
    try:
        ref, clk = _run(case, tmax, None, 1.0)
    except Exception as e:
        return excluded(f"build:{type(e).__name__}", labels)
    if ref.solver is None:
        return excluded("solver_init", labels)
    if ref.exc is not None:
        return trivial("reference_raised", labels)
    T, R = len(ref.trials), clk.reads
    adopted = adoptions(ref.trials, ref.result, ref.solver)
    if any(a is None for a in adopted):
        return trivial("reference_last_step_undecidable", labels)
    tr_ref = [trial_bytes(t) for t in ref.trials]
    restore = ref.solver.transform.restore_sol
    sub = 0

    def V(clause, msg):
        return violation(f"{clause}|{ctrl}", msg, labels, sub=sub)

    def same_result(res, it, n_ad, ntr, what):
        if it is None:
            return None
        xe, ye, de = restore(it.x, it.y, it.bounds_dual)
        if not (np.array_equal(res.x, xe) and np.array_equal(res.y, ye) and np.array_equal(res.d, de)):
            return V("result-not-prefix-state", f"{what}: returned x={np.asarray(res.x).tolist()} y={np.asarray(res.y).tolist()} but the last iterate adopted before the stop is x={np.asarray(xe).tolist()} y={np.asarray(ye).tolist()}")
        if res.iterations != ntr:
            return V("iterations-counter", f"{what}: iterations={res.iterations}, {ntr} step computations")
        if res.num_accepted_steps != n_ad:
            return V("accepted-counter", f"{what}: num_accepted_steps={res.num_accepted_steps}, {n_ad} adoptions in the prefix")
        return None

    # ---- every iteration budget ----------------------------------------------------------
    for k in range(0, T + 1):
        out, _ = _run(case, k, None, 1.0)
        sub += 1
        what = f"iteration_limit={k} (reference T={T})"
        if out.exc is not None:
            return V("limited-run-raises", f"{what}: {type(out.exc).__name__}: {out.exc}")
        if len(out.trials) != k:
            return V("trial-count", f"{what}: {len(out.trials)} step computations")
        for i, t in enumerate(out.trials):
            if trial_bytes(t) != tr_ref[i]:
                return V("trace-not-prefix", f"{what}: step {i} differs from the reference run's step {i}")
        exp_status = SolverStatus.IterationLimit
        if out.result.status != exp_status:
            return V("status", f"{what}: status {out.result.status.name}")
        it, n_ad = _expected_result(ref, adopted, k)
        bad = same_result(out.result, it, n_ad, k, what)
        if bad:
            return bad
    # ---- every deadline position ---------------------------------------------------------
    inside_newton = 0
    for j in range(0, R + 1):
        out, c2 = _run(case, tmax, j, 1.0)
        sub += 1
        what = f"deadline at clock read {j} of {R}"
        if out.exc is not None:
            return V("limited-run-raises", f"{what}: {type(out.exc).__name__}: {out.exc}")
        L = len(out.trials)
        if L > T:
            return V("trial-count", f"{what}: {L} step computations, reference has {T}")
        extra_failed = False
        for i, t in enumerate(out.trials):
            if trial_bytes(t) == tr_ref[i]:
                continue
            rt = ref.trials[i]
            if i == L - 1 and t.x_in == rt.x_in and t.y_in == rt.y_in and t.rho == rt.rho and t.dt == rt.dt and t.accepted is False and t.it_out is t.it_in:
                extra_failed = True
                continue
            return V("trace-not-prefix", f"{what}: step {i} of {L} differs from the reference run's (accepted={t.accepted}, reference accepted={rt.accepted})")
        fired = any(v >= 1.0 for v in c2.values)
        res = out.result
        if fired and res.status != SolverStatus.TimeLimit:
            # the deadline passed; another status is only legitimate if the iteration budget ran out at
            # the same moment (it is tested first) or the reference ended naturally at the same place
            budget_out = L == tmax and res.status == SolverStatus.IterationLimit
            if not budget_out and not (L == T and not extra_failed and res.status == ref.result.status):
                return V("status", f"{what}: status {res.status.name} after the deadline passed (reference: {ref.result.status.name} after {T})")
        if not fired and (res.status == SolverStatus.TimeLimit):
            return V("timelimit-before-deadline", f"{what}: TimeLimit although no clock read was past the deadline")
        k_eff = L - 1 if extra_failed else L
        it, n_ad = _expected_result(ref, adopted, k_eff)
        bad = same_result(res, it, n_ad, L, what)
        if bad:
            return bad
        if extra_failed:
            inside_newton += 1
    n_ad = sum(1 for a in adopted if a)
    n_rej = sum(1 for t in ref.trials if t.accepted is False)
    labels.append(f"T:{'<4' if T < 4 else '4-10' if T <= 10 else '>10'}")
    if inside_newton:
        labels.append("deadline_inside_newton_loop")
    if not (n_ad >= 1 and (n_rej >= 1 or inside_newton >= 1) and T >= 3):
        return trivial("no_mixed_history", labels, sub=sub)
    return ok(labels, True, sub=sub, T=T, R=R)
