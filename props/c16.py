"""C16 -- the penalty parameter is positive and never decreases.

Generated: problems (mostly with constraints) x all six penalty policies x controllers x initial
rho in {1e-8,1e-2,1,100} x starting multipliers scaled by {0, 1, 1e3} (large multipliers drive
the dual-norm policy) x scaling none/custom.

Oracle over the whole sequence of step computations: rho_t > 0; rho_{t+1} >= rho_t; Constant: all
equal params.rho; DualNorm: rho_t <= max(rho_0, largest |y|_inf of any iterate adopted so far) and
rho_{t+1} <= 10 rho_t across one adoption (equal when nothing was adopted); solver.rho read inside
the ComputedStep callback equals the rho of the step just computed.
"""

import numpy as np
from hypothesis import strategies as st

from vf import solvecase as SC
from vf import strategies as S
from vf.history import adoptions, dense_newton_step
from vf.spec import RefInternal
from vf.runner import excluded, ok, trivial, violation
from vf.trace import make_tracing_solver, run_solve

ID = "C16"
LEVEL = "exploration"
BUDGET = {"quick": 35, "thorough": 800}
CASE_TIMEOUT = 90
RULE = (
    "case = (spec with m>=1 mostly, start incl. large y0, params, scaling); every step computation "
    "is one execution. distinct = SHA-256 of the case; non-trivial = rho changed at least once "
    "(Constant policy: >= 3 step computations)."
)
ASSUMPTIONS = ["the multiplier norm of the dual-norm policy is that of the internal (scaled) multipliers, as seen by the algorithm"]


def strategy(tier):
    @st.composite
    def _s(draw):
        case = draw(
            SC.solve_case(
                families=("nlp", "nlp", "qp", "infeasible", "degenerate"),
                max_n=4 if tier == "quick" else 6,
                max_m=3,
                scalings=("none", "none", "custom"),
                iteration_limit=100 if tier == "quick" else 300,
            )
        )
        if draw(st.integers(0, 7)) == 0:
            # an equation solved exactly on a variable bound: constraint values become exactly 0.0 in the middle of a run
            spec = draw(S.degenerate_spec(max_n=3, kinds=("row_on_bound",)))
            case["spec"] = spec
            case["start"] = draw(S.start_point(spec))
            case["scaling"] = {"kind": "none"}
            case["params"]["penalty_update"] = draw(st.sampled_from(["DualEquilibration", "DualEquilibration", "DualNorm", "ParetoDecrease"]))
            if draw(st.booleans()):
                case["start"] = dict(case["start"], y0=[draw(st.sampled_from([-500.0, 250.0, 1000.0]))])
        elif draw(st.integers(0, 3)) == 0:
            # functions non-finite further than R from the start: trial points the step controller accepts may
            # turn out to be unevaluable and are discarded -- they must leave no trace in the penalty
            case["domain"] = {"R": draw(st.sampled_from([0.1, 0.5, 2.0])), "component": draw(st.sampled_from(["obj", "any", "obj_grad", "cons"])), "value": draw(st.sampled_from(["nan", "inf"]))}
            case["params"]["lamb_init"] = draw(st.sampled_from([1e-3, 1e-2, 1.0]))
            if draw(st.booleans()) and case["spec"]["m"] > 0:
                # the stateful policies with multipliers far above the penalty: every accepted step raises rho
                case["params"]["penalty_update"] = draw(st.sampled_from(["DualNorm", "DualNorm", "ParetoDecrease", "DualEquilibration"]))
                case["params"]["rho"] = draw(st.sampled_from([1e-8, 1e-2]))
                case["start"] = dict(case["start"], y0=[draw(st.sampled_from([-500.0, 250.0, 1000.0])) for _ in range(case["spec"]["m"])])
        return case

    return _s()


def check(case):
    labels = SC.config_labels(case)
    pen = case["params"].get("penalty_update", "DualNorm")
    try:
        problem, params, x0, y0 = SC.build(case)
        if case.get("domain"):
            from vf.faults import make_faulty_problem

            dom = case["domain"]
            problem = make_faulty_problem(problem, {"mode": "region", "center": S.x0_array(case["spec"], case["start"]).tolist(), "R": dom["R"], "component": dom["component"], "value": dom["value"], "entry": 0})
            labels.append("restricted_domain")
        solver = make_tracing_solver(problem, params)
    except Exception as e:
        return excluded(f"build:{type(e).__name__}", labels)
    try:
        vw, cw, ow = S.weights_of(solver, case["spec"])
        ri = RefInternal(case["spec"], vw, cw, ow)
    except Exception:
        ri = None
    # the statement speaks about "a solve": it is checked for the first solve and for a second solve
    # on the same Solver object (state left over from the first run must not enter the second)
    total = 0
    verdict = None
    for which in ("first solve", "second solve on the same Solver"):
        out = run_solve(problem, params, x0, y0, solver=solver)
        res = _judge(out, solver, params, pen, labels, which, ri)
        total += max(len(out.trials), 1)
        if res["status"] == "violation":
            res["sub"] = total
            return res
        if verdict is None:
            verdict = res
    verdict["sub"] = total
    verdict["labels"] = verdict["labels"] + ["resolved_on_same_solver"]
    return verdict


def _judge(out, solver, params, pen, labels, which, ri=None):
    labels = list(labels)
    trials = out.trials
    T = len(trials)
    rho_in_cb = list(solver.rho_in_cb)

    def V(clause, msg):
        tag = "" if which == "first solve" else "|resolve"
        return violation(f"{clause}|{pen}{tag}", f"[{which}] {msg}", labels, sub=max(T, 1))

    rhos = [t.rho for t in trials]
    for t, r in enumerate(rhos):
        if not (r > 0 and np.isfinite(r)):
            return V("rho-not-positive", f"step {t} used rho={r!r}")
        if t and r < rhos[t - 1]:
            return V("rho-decreased", f"rho went from {rhos[t-1]!r} to {r!r} at step {t}")
    for k, r in enumerate(rho_in_cb):
        if r != trials[k].rho:
            return V("solver-rho-in-callback", f"solver.rho={r!r} inside callback #{k}, step used rho={trials[k].rho!r}")
    if pen == "Constant":
        if any(r != params.rho for r in rhos):
            return V("constant-changed", f"Constant policy but rho sequence {sorted(set(rhos))} (params.rho={params.rho})")
    adopted = adoptions(trials, out.result, solver)
    if pen == "DualNorm" and T:
        ymax = 0.0
        rho0 = rhos[0]
        if rho0 != params.rho:
            return V("initial-rho", f"first step used rho={rho0!r}, params.rho={params.rho!r}")
        for t in range(T):
            if rhos[t] > max(rho0, ymax) * (1 + 1e-15):
                return V("dualnorm-exceeds-multiplier-norm", f"step {t}: rho={rhos[t]!r} > max(rho_0={rho0!r}, max adopted |y|_inf={ymax!r})")
            if t + 1 < T:
                if adopted[t]:
                    ymax = max(ymax, float(np.max(np.abs(np.frombuffer(trials[t].y_out)), initial=0.0)))
                    if rhos[t + 1] > 10.0 * rhos[t] * (1 + 1e-15):
                        return V("dualnorm-more-than-tenfold", f"rho raised from {rhos[t]!r} to {rhos[t+1]!r} across one adoption")
                elif rhos[t + 1] != rhos[t]:
                    return V("dualnorm-changed-without-adoption", f"rho changed from {rhos[t]!r} to {rhos[t+1]!r} although step {t} was not adopted")
    # the penalty *used* for a trial step: for the controllers that return the first Newton step of the
    # implicit Euler equation (Fixed, ResiduumRatio) the returned iterate must be the dense Newton step
    # for exactly the recorded (dt, rho) -- a penalty that is passed on wrongly shows up here
    p_ = params
    if (p_.step_control_type.name in ("Fixed", "ResiduumRatio") and p_.newton_type.name != "Globalized"
            and p_.active_set_type.name in ("Standard", "Explicit") and p_.linear_solver_type.name == "LU" and ri is not None):
        tau = p_.active_set_tau if p_.active_set_type.name == "Explicit" else None
        checked = 0
        for t, tr in enumerate(trials[:25]):
            if tr.lamb is None or tr.it_out is tr.it_in:
                continue
            X0, Y0 = np.frombuffer(tr.x_in), np.frombuffer(tr.y_in)
            refstep = dense_newton_step(ri, X0, Y0, tr.dt, tr.rho, tau)
            if refstep is None:
                continue
            Xn, Yn, cond, sn = refstep
            err = max(float(np.max(np.abs(np.frombuffer(tr.x_out) - Xn), initial=0.0)), float(np.max(np.abs(np.frombuffer(tr.y_out) - Yn), initial=0.0)))
            allowed = 1e-7 * cond * (1.0 + sn) * (1.0 + float(np.max(np.abs(X0), initial=0.0)) * 1e-3)
            checked += 1
            if err > allowed:
                return V("trial-step-not-newton-step-for-recorded-penalty", f"step {t} (dt={tr.dt!r}, rho={tr.rho!r}): returned iterate differs from the dense Newton step for these values by {err:.3e} > {allowed:.3e}")
        if checked:
            labels.append("newton_step_for_recorded_rho_checked")
    changed = len(set(rhos)) > 1
    if changed:
        labels.append("rho_changed")
    if out.exc is not None:
        labels.append("raised:" + ("deliberate" if out.deliberate else str(out.exc_sig)))
    if not (changed or (pen == "Constant" and T >= 3)):
        return trivial("rho_never_changed", labels, sub=max(T, 1))
    return ok(labels, True, sub=max(T, 1))
