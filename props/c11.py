"""C11 -- caller-owned data is never modified; cached callback results are safe.

Generated: problem x sparse format (COO/CSR/CSC per matrix callback) x return policy per callback
(fresh / memoised per point / one cached constant object where the callback really is constant:
Jacobian of affine rows, Hessian of a quadratic objective with affine rows) x scaling (none /
custom / grad-jac) x row kinds (non-zero equality offsets and slack rows matter) x configuration.

Oracle A (snapshot): after solve(), every object ever returned by a callback still equals the
deep snapshot taken when it was returned (values, index arrays, dtype); x0, y0, the problem's
bound arrays, the scaling weight arrays and the Params arrays are unchanged.
Oracle B (twin run): the run with cached / memoised returns has the same digest (every step
computation + result, bit-wise) as the run of the same case with fresh returns, and raises only
if the fresh run raises the same exception.
"""

import numpy as np
from hypothesis import strategies as st

from vf import solvecase as SC
from vf.runner import excluded, ok, trivial, violation
from vf.spec import Ref, make_user_problem
from vf.trace import algorithmic_frame, make_recording_problem, make_tracing_solver, run_solve

ID = "C11"
LEVEL = "exploration"
BUDGET = {"quick": 30, "thorough": 700}
CASE_TIMEOUT = 120
RULE = (
    "case = (spec, formats, return policy per callback, start, params, scaling); two runs per case "
    "(fresh twin and cached). distinct = SHA-256 of the case; non-trivial = a non-fresh policy on a "
    "callback whose result pygradflow post-processes (Jacobian / Hessian under scaling, constraints "
    "with offsets or slack rows) and >= 3 evaluations of that callback."
)
ASSUMPTIONS = ["a solve is deterministic (C10), so the fresh twin is a valid oracle"]


def strategy(tier):
    @st.composite
    def _s(draw):
        case = draw(
            SC.solve_case(
                families=("nlp", "nlp", "qp", "qp", "degenerate", "patternvar"),
                max_n=4 if tier == "quick" else 6,
                max_m=3,
                scalings=("none", "none", "custom", "custom", "gradjac", "nominal", "kkt"),
                iteration_limit=40 if tier == "quick" else 150,
            )
        )
        r = Ref(case["spec"])
        pol = {}
        pol["obj_grad"] = draw(st.sampled_from(["fresh", "memo"]))
        pol["cons"] = draw(st.sampled_from(["fresh", "memo", "memo"]))
        pol["cons_jac"] = draw(st.sampled_from(["fresh", "memo"] + (["const", "const"] if r.affine else ["memo"])))
        pol["lag_hess"] = draw(st.sampled_from(["fresh", "memo"] + (["const", "const"] if (r.affine and r.quadratic_obj) else ["memo"])))
        case["policy"] = pol
        if pol["cons_jac"] == "const" and case["spec"]["m"] > 0 and draw(st.booleans()):
            # equations only and no scaling: no slack columns are appended and nothing is rescaled, so the one cached
            # Jacobian object itself travels through the evaluator into every iterate of the solve
            sp_ = case["spec"]
            for i in range(sp_["m"]):
                v = sp_["cl"][i] if np.isfinite(sp_["cl"][i]) else sp_["cu"][i]
                sp_["cl"][i] = sp_["cu"][i] = v
            case["scaling"] = {"kind": "none"}
            if draw(st.booleans()):
                case["params"]["step_solver_type"] = draw(st.sampled_from(["Standard", "Extended", "Asymmetric"]))
        # the flow-integration solver evaluates the same callbacks through its own code path
        if case["spec"]["n"] <= 3 and draw(st.integers(0, 3)) == 0:
            case["solver"] = "integration"
            case["iteration_limit"] = 30
        if (case.get("solver") == "integration" or case["params"].get("newton_type") == "Globalized") and draw(st.booleans()):
            # without a scaling the solver works directly on the objects the callbacks return: the most exposed path
            case["scaling"] = {"kind": "none"}
        return case

    return _s()


def _arrays_of(params, problem, x0, y0):
    out = {"x0": x0, "y0": y0, "var_lb": problem.var_lb, "var_ub": problem.var_ub}
    if problem.num_cons:
        out["cons_lb"] = problem.cons_lb
        out["cons_ub"] = problem.cons_ub
    if params.scaling is not None:
        out["scaling.var_weights"] = params.scaling.var_weights
        out["scaling.cons_weights"] = params.scaling.cons_weights
    if params.scaling_primal is not None:
        out["scaling_primal"] = params.scaling_primal
    if params.scaling_dual is not None:
        out["scaling_dual"] = params.scaling_dual
    return {k: v for k, v in out.items() if isinstance(v, np.ndarray)}


def _integration_run(problem, params, spec, case):
    """IntegrationSolver run wrapped into the same outcome shape (digest over the result only)."""
    import hashlib

    from pygradflow.integration.integration_solver import IntegrationSolver
    from vf import strategies as S
    from vf.trace import RunOutcome, Timeout, alarm, exc_signature, result_bytes

    out = RunOutcome()
    try:
        with alarm(20):
            out.result = IntegrationSolver(problem, params).solve(S.x0_array(spec, case["start"]), S.y0_array(spec, case["start"]))
    except Timeout:
        raise
    except Exception as e:  # the integration solver's own assertions are not C11's subject, but must be the same in both twins
        out.exc = e
        out.exc_sig = exc_signature(e)
    h = hashlib.sha256()
    if out.result is not None:
        h.update(result_bytes(out.result))
    else:
        h.update(f"{type(out.exc).__name__}:{out.exc}".encode())
    out.digest = h.hexdigest()
    return out


def check(case):
    spec = case["spec"]
    pol = case["policy"]
    labels = SC.config_labels(case) + [f"policy:{k}={v}" for k, v in sorted(pol.items())] + [f"fmt:jac={spec['fmt']['jac']}", f"fmt:hess={spec['fmt']['hess']}"]
    sc_kind = (case.get("scaling") or {}).get("kind", "none")
    x0s, y0s = case["start"].get("x0"), case["start"].get("y0")

    def one_run(policy):
        inner = make_user_problem(spec, policy=policy)
        rec = make_recording_problem(inner, record_frames=False)
        c2 = dict(case)
        _, params, _, _ = SC.build(c2)
        x0 = None if x0s is None else (x0s if np.isscalar(x0s) else np.array(x0s, dtype=float))
        y0 = None if y0s is None else np.array(y0s, dtype=float)
        # snapshot *before* the Solver is constructed: the transformation is built there
        owned = _arrays_of(params, rec, x0, y0)
        owned.update({f"inner.{k}": v for k, v in _arrays_of(params, inner, None, None).items() if k.startswith(("var_", "cons_"))})
        before = {k: (v.copy(), v.dtype) for k, v in owned.items()}
        if case.get("solver") == "integration":
            out = _integration_run(rec, params, spec, case)
        else:
            solver = make_tracing_solver(rec, params)
            # objects handed out while the Solver was constructed (automatic scalings evaluate the
            # callbacks at the scaling point) stay under observation: they are caller-owned as well
            rec.clear()
            out = run_solve(rec, params, x0, y0, solver=solver)
        changed = [k for k, v in owned.items() if not (v.dtype == before[k][1] and np.array_equal(v, before[k][0], equal_nan=True))]
        return out, rec, changed

    from vf.trace import Timeout

    if case.get("solver") == "integration":
        labels.append("solver:integration")
    try:
        fresh, rec_f, changed_f = one_run({k: "fresh" for k in pol})
    except Timeout:
        from vf.runner import inconclusive

        return inconclusive("integration_timeout", labels)
    except Exception as e:
        return excluded(f"build:{type(e).__name__}", labels)
    try:
        cached, rec_c, changed_c = one_run(pol)
    except Timeout:
        from vf.runner import inconclusive

        return inconclusive("integration_timeout", labels)
    sub = 2
    for which, rec, changed in (("fresh", rec_f, changed_f), ("cached", rec_c, changed_c)):
        if changed:
            return violation(f"caller-array-modified|{changed[0]}", f"{which} run: {changed} changed during solve()", labels, sub=sub)
        mod = rec.modified()
        if mod:
            name = mod[0][0]
            fmt = spec["fmt"].get("jac" if name == "cons_jac" else "hess", "-") if name in ("cons_jac", "lag_hess") else "array"
            return violation(
                f"returned-object-modified|{name}|{fmt}|scaled={sc_kind != 'none'}",
                f"{which} run: {len(mod)} object(s) returned by callbacks were modified in place, first: {name} (call #{mod[0][1]}, format {fmt}, scaling {sc_kind}, policy {pol.get(name)})",
                labels, sub=sub,
            )
    if cached.exc is not None and (fresh.exc is None or type(fresh.exc) is not type(cached.exc) or str(fresh.exc) != str(cached.exc)):
        return violation(
            f"cached-run-raises|{cached.exc_sig}",
            f"with policy {pol} solve raised {type(cached.exc).__name__}: {str(cached.exc)[:160]} ({cached.exc_sig}); the fresh-returning twin {'raised ' + repr(fresh.exc) if fresh.exc else 'returned ' + fresh.result.status.name}",
            labels, sub=sub,
        )
    if cached.digest != fresh.digest:
        k = next((i for i, (a, b) in enumerate(zip(cached.trials, fresh.trials)) if (a.x_in, a.y_in, a.rho, a.dt, a.lamb, a.accepted, a.x_out, a.y_out) != (b.x_in, b.y_in, b.rho, b.dt, b.lamb, b.accepted, b.x_out, b.y_out)), None)
        nonfresh = [k2 for k2, v in pol.items() if v != "fresh"]
        return violation(
            f"twin-differs|scaled={sc_kind != 'none'}",
            f"policy {pol}: cached run differs from fresh twin at step {k} ({len(cached.trials)} vs {len(fresh.trials)} steps; "
            f"{cached.result.status.name if cached.result else cached.exc!r} vs {fresh.result.status.name if fresh.result else fresh.exc!r}); non-fresh callbacks {nonfresh}",
            labels, sub=sub,
        )
    r = Ref(spec)
    counts = {}
    for name, _, _, _ in rec_c.log:
        counts[name] = counts.get(name, 0) + 1
    scaled = sc_kind != "none"
    has_off_or_slack = any(r.row_kind(i) != "eq0" for i in range(r.m))
    post = []
    if scaled:
        post += ["cons_jac", "lag_hess"]
    if has_off_or_slack:
        post.append("cons")
    hit = [c for c in post if pol.get(c) != "fresh" and counts.get(c, 0) >= 3]
    if hit:
        labels.append("postprocessed_nonfresh:" + "+".join(hit))
    if not hit:
        return trivial("no_postprocessed_nonfresh_callback", labels, sub=sub)
    return ok(labels, True, sub=sub)
