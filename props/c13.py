"""C13 -- residuals and augmented-Lagrangian derivatives match their definitions.

Generated: internal-style problems (all rows are equalities c(x)=0; variable bounds of every
kind), primal points with each component drawn from {strictly inside, exactly on a bound, within
active_tol of a bound, outside the box}, multipliers, rho in 10^[-10,3] (the default 1e-8 included), dt in 10^[-4,3],
active sets computed or arbitrary boolean vectors, explicit tau.

Oracle: an independent dense numpy implementation built from the problem spec (``Ref``), written
from the mathematical definitions: augmented Lagrangian value / gradient / Hessian / mixed
derivative, constraint and bound violation, bound multipliers, stationarity and total residual,
local-infeasibility test, implicit-Euler residual F and its generalised Jacobian F' for a given
active set, active-set computation, row filter.  Tolerance: 1e-10 relative to the sum of absolute
values of the terms of each expression.  Boolean outputs are skipped (and counted) when the
deciding quantity lies within 1e-9 (relative) of its threshold.
"""

import numpy as np
from hypothesis import strategies as st

from vf import strategies as S
from vf.runner import ok, trivial, violation
from vf.spec import INF, Ref, make_user_problem

ID = "C13"
LEVEL = "exploration"
BUDGET = {"quick": 120, "thorough": 20000}
RULE = (
    "case = (spec with equality rows, point x with per-component placement inside/on/near/outside "
    "the box, y, reference iterate (x0,y0), rho, dt, optional explicit active set and tau); "
    "distinct = SHA-256 of the case; non-trivial = >=1 finite bound, >=1 constraint row and at "
    "least one component on/outside a bound (so projection, bound multipliers and the active-set "
    "rows of F' are exercised)."
)
ASSUMPTIONS = ["Precision.Double; default active_tol=1e-8"]
ALPHA = 1e-8
RTOL = 1e-10


@st.composite
def placed_point(draw, lb, ub):
    x, tags = [], []
    for l, u in zip(lb, ub):
        opts = ["in"]
        if np.isfinite(l):
            opts += ["lb", "lb_near", "below"]
        if np.isfinite(u):
            opts += ["ub", "ub_near", "above"]
        k = draw(st.sampled_from(opts))
        d = draw(st.integers(1, 32)) / 8.0
        if k == "in":
            if np.isfinite(l) and np.isfinite(u):
                t = draw(st.integers(1, 7)) / 8.0
                v = l + t * (u - l)
            elif np.isfinite(l):
                v = l + d
            elif np.isfinite(u):
                v = u - d
            else:
                v = S.dy(draw, -32, 32)
        elif k == "lb":
            v = l
        elif k == "ub":
            v = u
        elif k == "lb_near":
            v = l + draw(st.sampled_from([5e-9, -5e-9, 2e-8, -3e-8]))
        elif k == "ub_near":
            v = u + draw(st.sampled_from([5e-9, -5e-9, 2e-8, -3e-8]))
        elif k == "below":
            v = l - d
        else:
            v = u + d
        x.append(float(v))
        tags.append(k)
    return x, tags


def strategy(tier):
    @st.composite
    def _s(draw):
        spec = draw(S.nlp_spec(max_n=4 if tier == "quick" else 6, max_m=3))
        if draw(st.integers(0, 3)) == 0:
            spec = draw(S.magnified(spec))  # bounds of magnitude 1e3..1e6
        m = spec["m"]
        spec["cl"], spec["cu"] = [0.0] * m, [0.0] * m  # internal style
        n = spec["n"]
        x, tags = draw(placed_point(spec["lb"], spec["ub"]))
        x0, _ = draw(placed_point(spec["lb"], spec["ub"]))
        x0 = np.clip(x0, spec["lb"], spec["ub"]).tolist()
        case = {
            "spec": spec,
            "x": x, "tags": tags,
            "y": S.dvec(draw, m, -32, 32, 4.0),
            "x0": x0,
            "y0": S.dvec(draw, m, -32, 32, 4.0),
            "rho": draw(st.sampled_from([1e-10, 1e-8, 1e-8, 1e-6, 1e-3, 0.5, 1.0, 7.0, 1e3])),
            "dt": draw(st.sampled_from([1e-4, 1e-2, 0.5, 1.0, 3.0, 1e3])),
            "rho2": draw(st.sampled_from([1e-10, 1e-8, 1e-8, 1e-6, 1e-3, 0.5, 1.0, 7.0, 1e3])),
            "active": draw(st.one_of(st.none(), st.lists(st.booleans(), min_size=n, max_size=n))),
            "tau": draw(st.one_of(st.none(), st.sampled_from([1e-3, 0.1, 1.0, 10.0]))),
            "rowfilter": draw(st.lists(st.booleans(), min_size=n, max_size=n)),
        }
        return case

    return _s()


def close(got, ref, scale, rtol=RTOL):
    got = np.asarray(got, dtype=float)
    ref = np.asarray(ref, dtype=float)
    if got.shape != ref.shape:
        return False
    tol = rtol * (np.asarray(scale, dtype=float) + np.abs(ref)) + 1e-300
    return bool(np.all(np.abs(got - ref) <= tol))


def dense(M):
    return np.asarray(M.toarray() if hasattr(M, "toarray") else M, dtype=float)


def check(case):
    from pygradflow.implicit_func import ImplicitFunc, ScaledImplicitFunc
    from pygradflow.iterate import Iterate
    from pygradflow.params import Params
    from pygradflow.util import keep_rows

    spec = case["spec"]
    r = Ref(spec)
    n, m = r.n, r.m
    problem = make_user_problem(spec)
    params = Params()
    x = np.array(case["x"], dtype=float)
    y = np.array(case["y"], dtype=float)
    x0 = np.array(case["x0"], dtype=float)
    y0 = np.array(case["y0"], dtype=float)
    rho, dt = float(case["rho"]), float(case["dt"])
    lb, ub = r.lb, r.ub
    labels = [f"rho:{rho:g}", f"dt:{dt:g}", f"active:{'given' if case['active'] is not None else 'computed'}", f"tau:{case['tau']}"]
    labels += sorted({f"place:{t}" for t in case["tags"]})
    skipped = []

    it = Iterate(problem, params, x, y)
    it0 = Iterate(problem, params, x0, y0)
    func = ImplicitFunc(problem, it0, dt)
    sfunc = ScaledImplicitFunc(problem, it0, dt)
    objs = (it, it0, func, sfunc)
    # every quantity must be a function of its arguments: the same Iterate / function objects are
    # queried a second time with another penalty (no hidden memo keyed on object identity only)
    rhos = [rho] + ([float(case["rho2"])] if case.get("rho2") is not None and float(case["rho2"]) != rho else [])
    verdict = None
    for k, rho_k in enumerate(rhos):
        res = _block(case, r, problem, params, objs, x, y, x0, y0, rho_k, dt, labels, requery=(k > 0))
        if res["status"] == "violation":
            return res
        if verdict is None:
            verdict = res
    if len(rhos) > 1:
        verdict["labels"] = verdict["labels"] + ["requeried_other_rho"]
    return verdict


def _block(case, r, problem, params, objs, x, y, x0, y0, rho, dt, labels0, requery):
    from pygradflow.util import keep_rows

    it, it0, func, sfunc = objs
    n, m = r.n, r.m
    lb, ub = r.lb, r.ub
    labels = list(labels0)
    skipped = []
    tagq = "|requery" if requery else ""

    f, g, c, J = r.f(x), r.g(x), r.c(x), r.J(x)
    aJ = np.abs(J)

    def V(clause, msg):
        return violation(clause + tagq, (f"[second query on the same objects with rho={rho}] " if requery else "") + msg, labels)

    # ---- augmented Lagrangian and derivatives ---------------------------------------------
    al = f + rho / 2.0 * float(c @ c) + float(c @ y)
    al_scale = abs(f) + rho / 2.0 * float(c @ c) + float(np.abs(c) @ np.abs(y)) + r.n * 1e-3
    # f itself is a sum; use its term magnitudes
    al_scale += 0.5 * float(np.abs(x) @ np.abs(r.Q) @ np.abs(x)) + float(np.abs(r.q) @ np.abs(x)) + float(np.sum(np.abs(r.w))) + float(np.sum(np.abs(r.v) * x**4)) / 24
    if not close(it.aug_lag(rho), al, al_scale):
        return V("aug_lag", f"aug_lag={it.aug_lag(rho)!r} reference {al!r}")
    mult = y + rho * c
    dx = g + J.T @ mult
    g_scale = np.abs(r.Q) @ np.abs(x) + np.abs(r.q) + np.abs(r.w) + np.abs(r.v) * np.abs(x) ** 3 / 6
    dx_scale = g_scale + aJ.T @ (np.abs(y) + rho * np.abs(c))
    if not close(it.aug_lag_deriv_x(rho), dx, dx_scale):
        return V("aug_lag_deriv_x", f"got {it.aug_lag_deriv_x(rho).tolist()} reference {dx.tolist()}")
    if not close(it.aug_lag_deriv_y(), c, np.abs(c) + 1e-3):
        return V("aug_lag_deriv_y", f"got {it.aug_lag_deriv_y().tolist()} reference {c.tolist()}")
    if not close(dense(it.aug_lag_deriv_xy()), J, aJ):
        return V("aug_lag_deriv_xy", "mixed derivative != Jacobian")
    Hxx = r.H(x, mult) + rho * (J.T @ J)
    H_scale = np.abs(r.hf(x)) + np.abs(r.hc(x, np.abs(mult))) + rho * (aJ.T @ aJ) + 1.0
    if r.Hc is not None or r.u.any():
        # |sum_i m_i H_i| bound by sum |m_i||H_i|
        Habs = np.zeros((n, n))
        if r.Hc is not None:
            Habs += np.einsum("i,ijk->jk", np.abs(mult), np.abs(r.Hc))
        if r.u.any():
            Habs += np.einsum("i,ij,ik->jk", np.abs(r.u * mult), np.abs(r.T), np.abs(r.T))
        H_scale = H_scale + Habs
    got_xx = dense(it.aug_lag_deriv_xx(rho))
    if not close(got_xx, Hxx, H_scale):
        k = np.unravel_index(np.argmax(np.abs(got_xx - Hxx)), Hxx.shape)
        return V("aug_lag_deriv_xx", f"entry {k}: got {got_xx[k]!r} reference {Hxx[k]!r} (rho={rho})")

    # ---- violations / residuals ------------------------------------------------------------
    cv = float(np.max(np.abs(c))) if m else 0.0
    if not close(it.cons_violation, cv, cv):
        return V("cons_violation", f"got {it.cons_violation!r} reference {cv!r}")
    bv = max(float(np.max(np.maximum(lb - x, 0.0), initial=0.0)), float(np.max(np.maximum(x - ub, 0.0), initial=0.0)))
    if not close(it.bound_violation, bv, bv):
        return V("bound_violation", f"got {it.bound_violation!r} reference {bv!r}")
    # active classification with knife-edge detection
    dl, du = np.abs(x - lb), np.abs(ub - x)
    edge = np.any(np.abs(dl - ALPHA) <= 1e-9 * ALPHA + 1e-17) or np.any(np.abs(du - ALPHA) <= 1e-9 * ALPHA + 1e-17)
    at_l = dl <= ALPHA
    at_u = du <= ALPHA
    both = at_l & at_u
    only_l = at_l & ~both
    only_u = at_u & ~both
    rr = -(g + J.T @ y)
    d = np.zeros(n)
    d[only_u] = np.maximum(rr[only_u], 0.0)
    d[only_l] = np.minimum(rr[only_l], 0.0)
    d[both] = rr[both]
    r_scale = g_scale + aJ.T @ np.abs(y)
    if edge:
        skipped.append("active_tol_knife_edge")
    else:
        if not close(it.bounds_dual, d, r_scale):
            return V("bounds_dual", f"got {it.bounds_dual.tolist()} reference {d.tolist()} (x={x.tolist()}, lb={lb.tolist()}, ub={ub.tolist()})")
        sr = float(np.max(np.abs(g + J.T @ y + d), initial=0.0))
        if not close(it.stat_res, sr, float(np.max(r_scale, initial=0.0))):
            return V("stat_res", f"got {it.stat_res!r} reference {sr!r}")
        tr = max(cv, bv, sr)
        if not close(it.total_res, tr, float(np.max(r_scale, initial=0.0)) + cv + bv):
            return V("total_res", f"got {it.total_res!r} reference {tr!r}")
        feas = (cv <= 1e-6) and (bv <= 1e-6)
        if abs(cv - 1e-6) > 1e-15 and abs(bv - 1e-6) > 1e-15 and bool(it.is_feasible(1e-6)) != feas:
            return V("is_feasible", f"got {it.is_feasible(1e-6)} reference {feas}")
        # local infeasibility
        gi = J.T @ c
        strict = gi.copy()
        strict[only_l] = np.minimum(gi[only_l], 0.0)
        strict[only_u] = np.maximum(gi[only_u], 0.0)
        lenient = strict.copy()
        lenient[both] = 0.0
        ns, nl = float(np.max(np.abs(strict), initial=0.0)), float(np.max(np.abs(lenient), initial=0.0))
        for ftol, lit in ((1e-6, 1e-8), (0.5, 10.0), (1e-6, 10.0)):
            vs = cv > ftol and ns <= lit
            vl = cv > ftol and nl <= lit
            near = abs(cv - ftol) <= 1e-9 * ftol or abs(ns - lit) <= 1e-9 * lit or abs(nl - lit) <= 1e-9 * lit
            if vs != vl or near:
                skipped.append("locally_infeasible_ambiguous")
                continue
            got = it.locally_infeasible(ftol, lit)
            if bool(got) != vs:
                return V("locally_infeasible", f"locally_infeasible({ftol},{lit}) = {got}, reference {vs} (violation {cv:.3e}, projected gradient norm {ns:.3e})")

    # ---- implicit Euler residual -----------------------------------------------------------
    p = x0 - dt * dx
    p_scale = np.abs(x0) + dt * dx_scale
    thr_l, thr_u = lb - 1e-8, ub + 1e-8
    p_edge = np.any(np.abs(p - thr_l) <= 1e-9 * (p_scale + 1e-8)) or np.any(np.abs(p - thr_u) <= 1e-9 * (p_scale + 1e-8))
    act_ref = (p < thr_l) | (p > thr_u)
    if not close(func.projection_initial(it, rho), p, p_scale):
        return V("projection_initial", f"got {func.projection_initial(it, rho).tolist()} reference {p.tolist()}")
    if p_edge:
        skipped.append("projection_knife_edge")
    else:
        got_act = func.compute_active_set(it, rho)
        if got_act.dtype != bool or not np.array_equal(got_act, act_ref):
            return V("compute_active_set", f"got {got_act.tolist()} reference {act_ref.tolist()} p={p.tolist()}")
    tau = case["tau"]
    if tau is not None:
        lam = 1.0 / dt
        pt = (1.0 - tau * lam) * x + (tau * lam) * x0 - tau * dx
        pt_scale = abs(1.0 - tau * lam) * np.abs(x) + tau * lam * np.abs(x0) + tau * dx_scale
        if not close(func.projection_initial(it, rho, tau), pt, pt_scale):
            return V("projection_initial_tau", f"tau={tau}: got {func.projection_initial(it, rho, tau).tolist()} reference {pt.tolist()}")
        t_edge = np.any(np.abs(pt - thr_l) <= 1e-9 * (pt_scale + 1e-8)) or np.any(np.abs(pt - thr_u) <= 1e-9 * (pt_scale + 1e-8))
        if t_edge:
            skipped.append("projection_knife_edge_tau")
        else:
            got_t = func.compute_active_set(it, rho, tau)
            ref_t = (pt < thr_l) | (pt > thr_u)
            if not np.array_equal(got_t, ref_t):
                return V("compute_active_set_tau", f"tau={tau}: got {got_t.tolist()} reference {ref_t.tolist()}")
    if case["active"] is not None:
        act = np.array(case["active"], dtype=bool)
    elif p_edge:
        act = None
    else:
        act = act_ref
    if act is not None:
        proj = p.copy()
        proj[act] = np.minimum(np.maximum(p[act], lb[act]), ub[act])
        # projection: inside the box on active components, identity on inactive ones (bit-wise)
        gotp = func.project(p.copy(), act)
        if not (np.all(gotp[act] >= lb[act]) and np.all(gotp[act] <= ub[act])):
            return V("project-active-in-box", f"projected {gotp.tolist()} leaves [{lb.tolist()},{ub.tolist()}] on active {act.tolist()}")
        if not np.array_equal(gotp[~act], p[~act]):
            return V("project-identity-inactive", f"projection changed inactive components: {gotp.tolist()} vs {p.tolist()}")
        Fx = x - proj
        Fy = y - (y0 + dt * c)
        F = np.concatenate([Fx, Fy])
        F_scale = np.concatenate([np.abs(x) + p_scale + np.abs(lb * np.isfinite(lb)) if False else np.abs(x) + p_scale, np.abs(y) + np.abs(y0) + dt * np.abs(c)])
        gotF = func.value_at(it, rho, act.copy() if case["active"] is not None else None)
        if not close(gotF, F, F_scale):
            k = int(np.argmax(np.abs(np.asarray(gotF) - F)))
            return V("value_at", f"F[{k}]: got {gotF[k]!r} reference {F[k]!r} (active={act.tolist()})")
        # generalised Jacobian for this active set
        inact = (~act).astype(float)
        Fp = np.block([
            [np.eye(n) + inact[:, None] * (dt * Hxx), inact[:, None] * (dt * J.T)],
            [-dt * J, np.eye(m)],
        ])
        Fp_scale = np.block([
            [np.eye(n) + dt * H_scale, dt * aJ.T],
            [dt * aJ, np.eye(m)],
        ])
        gotFp = dense(func.deriv_at(it, rho, act.copy()))
        if not close(gotFp, Fp, Fp_scale):
            k = np.unravel_index(np.argmax(np.abs(gotFp - Fp)), Fp.shape)
            return V("deriv_at", f"F'[{k}]: got {gotFp[k]!r} reference {Fp[k]!r} (active={act.tolist()}, dt={dt}, rho={rho})")
        gotFp2 = dense(func.deriv(it.aug_lag_deriv_xy(), it.aug_lag_deriv_xx(rho), act.copy()))
        if not close(gotFp2, Fp, Fp_scale):
            return V("deriv", "deriv(jac, hess, active) != reference")
        # scaled residual: lambda * [F_x ; -F_y] for the same active set
        lam = 1.0 / dt
        gotS = sfunc.value_at(it, rho, act.copy())
        S_ref = lam * np.concatenate([Fx, -Fy])
        # the scaled function projects lam*p onto lam*[lb,ub]: identical up to rounding
        if not close(gotS, S_ref, lam * F_scale, rtol=1e-9):
            k = int(np.argmax(np.abs(np.asarray(gotS) - S_ref)))
            return V("scaled_value_at", f"component {k}: got {gotS[k]!r} reference {S_ref[k]!r}")
        # ... and its generalised Jacobian: [[lam I + P' H, P' J'], [-J, lam I]]
        Sp = np.block([
            [lam * np.eye(n) + inact[:, None] * Hxx, inact[:, None] * J.T],
            [-J, lam * np.eye(m)],
        ])
        Sp_scale = np.block([
            [lam * np.eye(n) + H_scale, aJ.T],
            [aJ, lam * np.eye(m)],
        ])
        gotSp = dense(sfunc.deriv_at(it, rho, act.copy()))
        if not close(gotSp, Sp, Sp_scale):
            k = np.unravel_index(np.argmax(np.abs(gotSp - Sp)), Sp.shape)
            return V("scaled_deriv_at", f"scaled F'[{k}]: got {gotSp[k]!r} reference {Sp[k]!r} (active={act.tolist()})")
        # asking for derivatives must not change what the iterate reports afterwards
        if not close(dense(it.aug_lag_deriv_xy()), J, aJ):
            return V("jacobian-changed-by-deriv", "iterate.aug_lag_deriv_xy() differs from the Jacobian after deriv_at() calls")
        if not close(it.aug_lag_deriv_x(rho), dx, dx_scale):
            return V("gradient-changed-by-deriv", "iterate.aug_lag_deriv_x() changed after deriv_at() calls")
    # ---- keep_rows --------------------------------------------------------------------------
    import scipy.sparse as sps

    rf = np.array(case["rowfilter"], dtype=bool)
    Hs = sps.coo_matrix(Hxx)
    kept = dense(keep_rows(Hs, rf))
    refk = Hxx * rf[:, None]
    if not np.array_equal(kept, refk):
        return V("keep_rows", f"keep_rows with filter {rf.tolist()} wrong")

    for sname in skipped:
        labels.append(f"skipped:{sname}")
    on_or_out = any(t != "in" for t in case["tags"])
    has_bound = bool(np.any(np.isfinite(lb)) or np.any(np.isfinite(ub)))
    if not (has_bound and m >= 1 and on_or_out):
        return trivial("no_bound_or_no_rows_or_interior", labels)
    return ok(labels, True)
