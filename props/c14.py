"""C14 -- every step-solver / linear-solver choice computes the same semismooth Newton step.

Generated: internal-style problems (equality rows; affine *and* nonlinear constraints with
c(x) != 0), in-box points with components on their bounds (non-trivial active sets), multipliers,
dt in 10^[-2,1.5], rho in 10^[-3,1]; every step solver (Standard, Extended, Symmetric,
Asymmetric) x every applicable linear solver (LU, GMRES, MINRES with Symmetric) x Newton variant
(Simplified, Full, ActiveSet).

Oracle: s* = numpy.linalg.solve(F'(z), F(z)) with the dense reference residual and generalised
Jacobian (C13's definitions), next point x+ = clip(x - s*_x), y+ = y - s*_y.  Allowed error:
direct solver 1e-9 * (cond(F') + cond(M')) * (1 + |s*|) where M' is the matrix the step solver
actually factorised (recorded); iterative solvers: (stated residual bound of the solver, evaluated
on the recorded system) / sigma_min(M').  The three Newton variants must agree on the first step;
on convex QPs with affine rows one step with an unchanged active set must solve F = 0.
"""

import numpy as np
from hypothesis import strategies as st

from vf import strategies as S
from vf.faults import linear_solver_faults
from vf.runner import excluded, ok, trivial, violation
from vf.spec import Ref, RefInternal, make_user_problem

ID = "C14"
LEVEL = "exploration"
BUDGET = {"quick": 40, "thorough": 4000}
RULE = (
    "case = (internal-style spec, in-box point with components on bounds, y, dt, rho); every case "
    "runs all step-solver x linear-solver x Newton-variant combinations (executions = combos). "
    "distinct = SHA-256 of the case; non-trivial = active set neither empty nor full, >=1 row, and "
    "(for the nonlinear class) c(x) != 0 with non-zero constraint curvature."
)
ASSUMPTIONS = [
    "cases where a projected component lies within max(1e-6, 1e-7*dt) of a bound are excluded (standard and lambda-scaled residual use thresholds 1e-8 vs 1e-8*dt)",
    "cases with cond(F') > 1e7 are excluded ('up to the linear solver's tolerance' is meaningless there)",
    "iterative solvers are held to exactly the residual criterion C17 holds them to",
]
STEP_SOLVERS = ["Standard", "Extended", "Symmetric", "Asymmetric"]
NEWTONS = ["Simplified", "Full", "ActiveSet"]


def strategy(tier):
    @st.composite
    def _s(draw):
        fam = draw(st.sampled_from(["nlp", "nlp", "qp"]))
        if fam == "qp":
            spec = draw(S.qp_convex_spec(max_n=4 if tier == "quick" else 6, max_m=3))
        else:
            spec = draw(S.nlp_spec(max_n=4 if tier == "quick" else 6, max_m=3, min_m=1))
        spec["family"] = fam
        m, n = spec["m"], spec["n"]
        bilinear = fam == "nlp" and n >= 2 and draw(st.integers(0, 3)) == 0
        if bilinear:
            # indefinite Hessian with a zero diagonal and O(1)..O(100) off-diagonal coupling: well
            # conditioned, but every pivot of an unpivoted factorisation is (nearly) zero for large dt
            Qb = np.zeros((n, n))
            for i in range(n):
                for j in range(i):
                    Qb[i, j] = Qb[j, i] = draw(st.sampled_from([-100.0, -1.0, -0.5, 0.5, 1.0, 3.0]))
            spec["Q"] = Qb.tolist()
            spec.pop("w", None), spec.pop("v", None)
        spec["cl"], spec["cu"] = [0.0] * m, [0.0] * m
        lb, ub = np.array(spec["lb"]), np.array(spec["ub"])
        x = []
        for j in range(n):
            opts = ["in"] + (["lb"] if np.isfinite(lb[j]) else []) + (["ub"] if np.isfinite(ub[j]) else [])
            k = draw(st.sampled_from(opts))
            if k == "lb":
                x.append(float(lb[j]))
            elif k == "ub":
                x.append(float(ub[j]))
            else:
                v = S.dy(draw, -16, 16)
                x.append(float(min(max(v, lb[j]), ub[j])))
        if m > 0 and draw(st.integers(0, 3)) == 0:
            # an exactly feasible linearisation point: move the right-hand sides so that c(x) == 0.0 in every row
            # (dyadic data: exact for affine and quadratic rows; rows with a sine term keep a rounding-size residual)
            from vf.spec import Ref

            c0 = Ref(spec).c(np.array(x))
            spec["b"] = (np.array(spec["b"], dtype=float) + c0).tolist()
        return {
            "spec": spec,
            "x": x,
            "y": S.dvec(draw, m, -16, 16, 4.0),
            # "for all dt > 0": up to 1/lamb_min = 1e12, the largest step the solver itself can take
            "dt": draw(st.sampled_from([0.01, 0.1, 0.5, 1.0, 4.0, 30.0, 1e3, 1e6, 1e9, 1e12])),
            "rho": draw(st.sampled_from([1e-3, 1e-2, 0.1, 1.0, 10.0])),
            # active-set estimate: default (None) or an explicit tau (ActiveSetType.Explicit & friends)
            "tau": draw(st.sampled_from([None, None, None, 1e-3, 0.1, 0.5, 2.0])),
        }

    return _s()


def minres_bound(M, b, x0, x):
    n = M.shape[0]
    A2 = np.linalg.norm(M, 2)
    r0 = np.linalg.norm(b - M @ (x0 if x0 is not None else np.zeros(n)))
    return 4 * 1e-5 * np.sqrt(3 * (5 * n + 1) * A2**2 + r0**2) * np.linalg.norm(x)


def gmres_bound(b):
    return max(1e-5 * np.linalg.norm(b), 1e-8) * 1.01


def second_full_step(ri, r, method, step1, x0, y0, dt, rho, lb, ub, ss, condF, tau=None):
    """Reference for the 2nd full-Newton iteration from z1 = step1.iterate with base point (x0, y0)."""
    from pygradflow.step.step_solver_error import StepSolverError

    n, m = r.n, r.m
    x1 = np.array(step1.iterate.x, dtype=float)
    y1 = np.array(step1.iterate.y, dtype=float)
    dxL = ri.aug_lag_dx(x1, y1, rho)
    p = x0 - dt * dxL
    q = p if tau is None else (1.0 - tau / dt) * x1 + (tau / dt) * x0 - tau * dxL
    margin = max(1e-6, 1e-7 * dt)
    if np.any(np.abs(p - lb) <= margin) or np.any(np.abs(p - ub) <= margin) or np.any(np.abs(q - lb) <= margin * (1 + np.abs(q))) or np.any(np.abs(q - ub) <= margin * (1 + np.abs(q))):
        return "skip"
    act = (q < lb) | (q > ub)
    proj = p.copy()
    proj[act] = np.minimum(np.maximum(p[act], lb[act]), ub[act])
    F = np.concatenate([x1 - proj, y1 - (y0 + dt * r.c(x1))])
    Hxx = ri.aug_lag_dxx(x1, y1, rho)
    J = r.J(x1)
    inact = (~act).astype(float)
    Fp = np.block([[np.eye(n) + inact[:, None] * (dt * Hxx), inact[:, None] * (dt * J.T)], [-dt * J, np.eye(m)]])
    sv = np.linalg.svd(Fp, compute_uv=False)
    if sv[-1] <= 0 or sv[0] / sv[-1] > 1e7:
        return "skip"
    s2 = np.linalg.solve(Fp, F)
    xn = np.minimum(np.maximum(x1 - s2[:n], lb), ub)
    yn = y1 - s2[n:]
    try:
        step2 = method.step(step1.iterate)
    except StepSolverError:
        return f"{ss}/LU/Full: StepSolverError in the second Newton iteration (cond {sv[0]/sv[-1]:.2e})"
    err = max(float(np.max(np.abs(step2.iterate.x - xn), initial=0.0)), float(np.max(np.abs(step2.iterate.y - yn), initial=0.0)))
    mag = float(max(np.max(np.abs(x1), initial=0.0), np.max(np.abs(y1), initial=0.0), np.max(np.abs(x0), initial=0.0)))
    allowed = 1e-8 * (sv[0] / sv[-1] + condF) * (1.0 + float(np.linalg.norm(s2, np.inf))) + 1e-12 * mag
    if err > allowed:
        return (f"{ss}/LU/Full: second Newton iteration (same step-solver object, derivatives re-evaluated at z1) differs from the dense "
                f"Newton step at z1 by {err:.3e} > {allowed:.3e}; got x+={step2.iterate.x.tolist()} expected {xn.tolist()}")
    return None


def check(case):
    from pygradflow.iterate import Iterate
    from pygradflow.newton import newton_method
    from pygradflow.params import Params
    from pygradflow.step.step_solver_error import StepSolverError

    spec = case["spec"]
    ri = RefInternal(spec)
    r = ri.ref
    n, m = r.n, r.m
    x = np.array(case["x"], dtype=float)
    y = np.array(case["y"], dtype=float)
    dt, rho = float(case["dt"]), float(case["rho"])
    lb, ub = r.lb, r.ub
    labels = [f"family:{spec['family']}", f"dt:{dt:g}", f"rho:{rho:g}"]

    tau = case.get("tau")
    labels.append(f"tau:{tau}")
    c = r.c(x)
    dxL = ri.aug_lag_dx(x, y, rho)
    p = x - dt * dxL
    # with an explicit tau the active set is estimated at (1 - tau/dt) x + (tau/dt) x0 - tau grad = x - tau grad
    q = p if tau is None else x - tau * dxL
    # knife edge: the standard residual classifies with a slack of 1e-8, the lambda-scaled one with 1e-8 on
    # lambda * (point - bound), i.e. 1e-8 * dt in unscaled terms; agreement is not promised in between
    margin = max(1e-6, 1e-7 * dt)
    if np.any(np.abs(q - lb) <= margin) or np.any(np.abs(q - ub) <= margin) or np.any(np.abs(p - lb) <= margin) or np.any(np.abs(p - ub) <= margin):
        return excluded("projection_within_margin_of_bound", labels)
    act = (q < lb) | (q > ub)
    proj = p.copy()
    proj[act] = np.minimum(np.maximum(p[act], lb[act]), ub[act])
    F = np.concatenate([x - proj, y - (y + dt * c)])
    Hxx = ri.aug_lag_dxx(x, y, rho)
    J = r.J(x)
    inact = (~act).astype(float)
    Fp = np.block([[np.eye(n) + inact[:, None] * (dt * Hxx), inact[:, None] * (dt * J.T)], [-dt * J, np.eye(m)]])
    sv = np.linalg.svd(Fp, compute_uv=False)
    if sv[-1] <= 0 or sv[0] / sv[-1] > 1e7:
        return excluded("ill_conditioned_newton_matrix", labels)
    condF = sv[0] / sv[-1]
    s = np.linalg.solve(Fp, F)
    sx, sy = s[:n], s[n:]
    xn = np.minimum(np.maximum(x - sx, lb), ub)
    yn = y - sy
    snorm = float(np.linalg.norm(s, np.inf))

    curv = (r.Hc is not None and r.Hc.any()) or r.u.any()
    nonlinear_c = bool(curv and np.any(np.abs(c) > 1e-9))
    labels.append(f"active:{int(act.sum())}/{n}")
    if nonlinear_c:
        labels.append("nonlinear_rows_c!=0")
    if m > 0 and not np.any(c):
        labels.append("c==0_exactly")

    problem = make_user_problem(spec)
    results = {}
    sub = 0
    for ss in STEP_SOLVERS:
        for ls in ["LU", "GMRES"] + (["MINRES"] if ss == "Symmetric" else []):
            for nt in NEWTONS:
                params = Params(step_solver_type=ss, linear_solver_type=ls, newton_type=nt)
                it = Iterate(problem, params, x, y)
                sub += 1
                with linear_solver_faults(record=True) as fac:
                    try:
                        method = newton_method(problem, params, it, dt, rho, tau)
                        step = method.step(it)
                    except StepSolverError:
                        labels.append(f"steperror:{ls}")
                        # the solver failed loudly: allowed for iterative solvers (C17), not for LU
                        if ls == "LU":
                            return violation(f"lu-step-fails|{ss}", f"{ss}/LU/{nt}: StepSolverError on a system with cond {condF:.2e}", labels)
                        continue
                    except Exception as e:
                        return violation(f"exception-{type(e).__name__}|{ss}|{ls}", f"{ss}/{ls}/{nt}: {type(e).__name__}: {e}", labels)
                got_x, got_y = step.iterate.x, step.iterate.y
                err = max(float(np.max(np.abs(got_x - xn), initial=0.0)), float(np.max(np.abs(got_y - yn), initial=0.0)))
                recs = [q for q in fac.solves if not q["observer"]]
                if not recs:
                    # a step solver may handle a trivial system without the linear solver; the step is still compared
                    rec = {"mat": __import__("scipy.sparse", fromlist=["x"]).csc_matrix(Fp), "rhs": F, "sol": s, "x0": None}
                    labels.append("no_linear_solve")
                else:
                    rec = recs[-1]
                M = rec["mat"].toarray()
                svm = np.linalg.svd(M, compute_uv=False)
                smin = svm[-1] if svm.size else 1.0
                condM = (svm[0] / smin) if svm.size and smin > 0 else np.inf
                if not np.isfinite(condM) or condM > 1e9:
                    labels.append("excluded_combo:cond_M")
                    continue
                zmag = 1e-12 * float(max(np.max(np.abs(x), initial=0.0), np.max(np.abs(y), initial=0.0)))  # rounding of the iterate itself
                if ls == "LU":
                    allowed = 1e-9 * (condF + condM) * (1.0 + snorm) + zmag
                else:
                    b = rec["rhs"]
                    if ls == "GMRES":
                        rb = gmres_bound(b)
                    else:
                        rb = minres_bound(M, b, rec["x0"], rec["sol"])
                    allowed = rb / smin + 1e-9 * (condF + condM) * (1.0 + snorm) + zmag
                    if allowed > 1e-2 * max(snorm, 1e-12):
                        labels.append(f"combo_trivial:{ls}")
                        continue
                results[(ss, ls, nt)] = (got_x.copy(), got_y.copy(), err, allowed)
                if err <= allowed and nt == "Full" and ls == "LU":
                    # second iteration of the full Newton method on the *same* method / step-solver object:
                    # the Newton step of F(. ; z, dt, rho) at z1 (derivatives and active set re-evaluated there)
                    bad2 = second_full_step(ri, r, method, step, x, y, dt, rho, lb, ub, ss, condF, tau)
                    if bad2 == "skip":
                        labels.append("second_step_skipped")
                    elif bad2 is not None:
                        return violation(f"second-step-mismatch|{ss}|direct|{'nonlinear' if nonlinear_c else 'affine'}", bad2, labels, sub=sub)
                    else:
                        labels.append("second_step_checked")
                if err > allowed:
                    sig = f"step-mismatch|{ss}|{'direct' if ls == 'LU' else 'iterative'}|{'nonlinear' if nonlinear_c else 'affine'}"
                    return violation(
                        sig,
                        f"{ss}/{ls}/{nt}: step differs from dense Newton step by {err:.3e} > {allowed:.3e} "
                        f"(|s*|={snorm:.3e}, cond F'={condF:.2e}); got x+={got_x.tolist()} y+={got_y.tolist()} "
                        f"expected x+={xn.tolist()} y+={yn.tolist()}",
                        labels, sub=sub,
                    )
    # Newton variants agree on the first step (same step solver, LU)
    for ss in STEP_SOLVERS:
        base = results.get((ss, "LU", "Simplified"))
        for nt in ("Full", "ActiveSet"):
            other = results.get((ss, "LU", nt))
            if base is None or other is None:
                continue
            dv = max(float(np.max(np.abs(base[0] - other[0]), initial=0.0)), float(np.max(np.abs(base[1] - other[1]), initial=0.0)))
            if dv > 1e-12 * (1.0 + snorm) * max(condF, 1.0):
                return violation(f"newton-variants-differ|{ss}", f"{ss}/LU: Simplified vs {nt} first steps differ by {dv:.3e}", labels, sub=sub)
    # QP clause: one step with unchanged active set solves F = 0
    if spec["family"] == "qp" and r.affine and r.quadratic_obj and tau is None:
        unclipped = x - sx
        if np.all(unclipped >= lb) and np.all(unclipped <= ub):
            zx, zy = unclipped, yn
            p2 = x - dt * ri.aug_lag_dx(zx, zy, rho)
            if not (np.any(np.abs(p2 - lb) <= margin) or np.any(np.abs(p2 - ub) <= margin)):
                # "unchanged active set": the same components are clipped, and to the same side
                if np.array_equal(p2 < lb, p < lb) and np.array_equal(p2 > ub, p > ub):
                    labels.append("qp_exactness_checked")
                    for (ss, ls, nt), (gx, gy, err, allowed) in results.items():
                        if ls != "LU":
                            continue
                        res = ri.euler_residual(gx, gy, x, y, dt, rho)
                        scale = (1.0 + snorm + float(np.linalg.norm(x)) + float(np.linalg.norm(y))) * max(condF, 1.0) * (1 + dt * float(np.linalg.norm(Hxx)) + dt * float(np.linalg.norm(J)))
                        if np.linalg.norm(res) > 1e-9 * scale:
                            return violation(f"qp-one-step-not-exact|{ss}", f"{ss}/LU/{nt}: |F(z+)|={np.linalg.norm(res):.3e} after one Newton step on a QP with unchanged active set", labels, sub=sub)
    if not results:
        return trivial("no_combination_comparable", labels, sub=sub)
    nontriv = (0 < act.sum() < n or (act.sum() == 0 and n == 1)) and m >= 1
    if spec["family"] == "nlp" and not nonlinear_c:
        pass
    if not nontriv:
        return trivial("active_set_empty_or_full_or_no_rows", labels, sub=sub)
    return ok(labels, True, sub=sub)
