"""C18 -- the penalty filter is a Pareto front.

Generated: (a) exhaustive small scope -- every sequence over a k x k grid up to a length bound,
each driven through ``filter_insert`` and through ``update``; (b) a Hypothesis
RuleBasedStateMachine with float pairs (ties, duplicates, +-0.0, huge / tiny magnitudes), up to
40 operations mixing ``filter_insert`` and ``update`` on ObjectivePenaltyFilter and
LagrangianPenaltyFilter-style stubs.

Oracle (history based, not incremental): after every operation the stored entries are exactly the
set of minimal elements (component-wise order) of all pairs offered so far; an offer is refused
iff some *previously stored* entry is <= it in both coordinates; an accepted offer removes exactly
the stored entries it dominates; ``update`` returns (rho, accept=True) on accept and
(10*rho, accept=False) on refuse.  Solver level: inside a solve with a filter policy, a refused
point vetoes the step (the iterate stays, rho of the next step unchanged) and an accepted one is
adopted with rho == initial penalty * 10^(number of refusals so far).
"""

import itertools

from hypothesis import strategies as st

from vf.runner import ok, trivial, violation

ID = "C18"
LEVEL = "exploration"
BUDGET = {"quick": 60, "thorough": 1500}
STEP_COUNT = 40
RULE = (
    "case = sequence of operations (insert|update, a, b) on a fresh filter; exhaustive part: all "
    "sequences over a 3x3 grid of length 5 (quick; all shorter ones are prefixes and are checked "
    "after every operation) / length 6 over 3x3 and length 4 over 4x4 (thorough), each through "
    "filter_insert and through update; generated part: Hypothesis state machine, floats with ties, "
    "duplicates, signed zeros, 1e+-300. distinct = SHA-256 of the operation list; non-trivial = at "
    "least one refusal and one accepted insert that removed a stored entry (or, for the grid "
    "enumeration, length >= 3). Third part (solver level): generated solves with the two filter "
    "policies on constrained and unconstrained problems; the ComputedStep history is replayed through "
    "the reference front (refused point => step vetoed, next rho unchanged, filter penalty x10; accepted "
    "=> adopted, rho == initial * 10^refusals); non-trivial there = >= 1 refusal and >= 2 accepts in the run."
)
EXHAUSTIVE = {
    "quick": "all 9^5 = 59049 sequences of length 5 over the 3x3 grid (prefix-closed: 66430 sequences incl. empty), x2 drivers",
    "thorough": "all 9^6 sequences over 3x3 and all 16^4 over 4x4, x2 drivers",
}
ASSUMPTIONS = [
    "entries are finite floats (NaN excluded: the property speaks of ordered pairs)",
    "stub iterates expose only .obj and .cons_violation (what ObjectivePenaltyFilter reads)",
]
NO_SHRINK = False


def _params(rho, precision="Double"):
    from pygradflow.params import Params, Precision

    return Params(rho=rho, precision=Precision[precision])


class _StubIterate:
    def __init__(self, a, b):
        self.obj = a
        self.cons_violation = b


def le(p, q):
    return p[0] <= q[0] and p[1] <= q[1]


def minimal_elements(history):
    pts = list(dict.fromkeys(history))  # distinct, order kept
    out = []
    for p in pts:
        if not any(le(q, p) and q != p for q in pts):
            out.append(p)
    return out


def key(p):
    # -0.0 == 0.0 as filter entries; normalise for set comparison
    return (p[0] + 0.0, p[1] + 0.0)


class FilterChecker:
    """Drives one real filter and checks every operation against the history oracle."""

    def __init__(self, rho0=1.0, precision="Double"):
        from pygradflow.penalty import ObjectivePenaltyFilter

        # a real Params object; the filter's verdict must not depend on the working precision of the
        # linear algebra (the pairs it is offered are Python floats)
        self.filt = ObjectivePenaltyFilter(None, _params(rho0, precision))
        self.history = []
        self.rho = rho0
        self.refusals = 0
        self.prunes = 0
        self.n = 0
        # update() is called the way Solver.solve calls it: (current iterate = last accepted point, trial point);
        # before the first acceptance the current iterate is the start, which the filter has never seen
        self.prev = _StubIterate(1.0e3, 1.0e3)

    def apply(self, op):
        kind, a, b = op[0], float(op[1]), float(op[2])
        new = (a, b)
        before = [tuple(e) for e in self.filt.entries]
        expect_refuse = any(le(e, new) for e in before)
        if kind == "insert":
            got = self.filt.filter_insert(a, b)
            accepted = bool(got)
            if not isinstance(got, bool):
                return f"insert-returns-{type(got).__name__}", f"filter_insert returned {got!r}"
        else:
            trial = _StubIterate(a, b)
            res = self.filt.update(self.prev, trial)
            accepted = bool(res.accept)
            if accepted:
                self.prev = trial
            exp_rho = self.rho if not expect_refuse else self.rho * 10.0
            if res.next_rho != exp_rho:
                return "update-rho", f"update({new}) returned rho {res.next_rho}, expected {exp_rho} (refuse={expect_refuse})"
            if self.filt.rho != exp_rho:
                return "update-rho-state", f"filter.rho {self.filt.rho} != {exp_rho}"
            self.rho = exp_rho
        self.n += 1
        if accepted == expect_refuse:
            return "refuse-iff-dominated", f"offer {new} accepted={accepted} but stored entries {before} => refuse={expect_refuse}"
        after = [tuple(e) for e in self.filt.entries]
        if accepted:
            self.history.append(new)
            exp_after = [e for e in before if not le(new, e)] + [new]
            if sorted(map(key, after)) != sorted(map(key, exp_after)):
                return "accept-removes-exactly-dominated", f"after accepting {new}: {after}, expected {exp_after}"
            if len(exp_after) < len(before) + 1:
                self.prunes += 1
        else:
            self.history.append(new)
            self.refusals += 1
            if after != before:
                return "refuse-changes-entries", f"refused {new} but entries changed {before} -> {after}"
        # invariants over the history
        for i, e in enumerate(after):
            for j, f in enumerate(after):
                if i != j and le(e, f):
                    return "pairwise-nondominated", f"{e} dominates {f} in {after}"
        mins = minimal_elements([key(p) for p in self.history])
        if sorted(map(key, after)) != sorted(mins):
            return "pareto-front-of-history", f"entries {after} != minimal elements {mins} of history {self.history}"
        return None


def check_solver_level(case):
    """Integration clause: inside a solve, a point the filter refuses vetoes the step (the iterate stays)
    and raises the filter's penalty tenfold; an accepted point is adopted with the penalty unchanged.
    The ComputedStep history is replayed through the reference Pareto front."""
    import numpy as np

    from vf import solvecase as SC
    from vf.trace import make_tracing_solver, run_solve

    labels = ["via:solver", f"penalty:{case['params']['penalty_update']}", f"control:{case['params']['step_control_type']}", f"m:{min(case['spec']['m'], 1)}"]
    try:
        problem, params, x0, y0 = SC.build(case)
        solver = make_tracing_solver(problem, params)
    except Exception as e:
        return trivial(f"build:{type(e).__name__}", labels)
    out = run_solve(problem, params, x0, y0, solver=solver)
    if out.exc is not None and not out.deliberate:
        return trivial("crash_is_C06s_subject", labels)
    trials = out.trials
    T = len(trials)
    kind = case["params"]["penalty_update"]
    front = []
    rho_f = params.rho
    refusals = accepts = 0
    for t in range(T - 1):  # the last step's fate is not observable from the next step
        tr, nx = trials[t], trials[t + 1]
        if tr.lamb is None or not tr.accepted:
            if nx.rho != tr.rho:
                return violation("solver-rho-changed-without-accept", f"step {t} not accepted but rho went {tr.rho!r} -> {nx.rho!r}", labels, sub=T)
            continue
        it = tr.it_out
        if kind == "ObjectiveFilter":
            entry = (float(it.obj), float(it.cons_violation))
        else:
            lx = it.aug_lag_deriv_x(rho_f)
            ly = it.aug_lag_deriv_y()
            entry = (float(np.dot(lx, lx) + np.dot(ly, ly)), float(np.linalg.norm(it.cons)))
        if not all(np.isfinite(entry)):
            return trivial("nonfinite_entry", labels, sub=T)
        refuse = any(le(e, entry) for e in front)
        adopted = nx.it_in is tr.it_out
        if refuse:
            refusals += 1
            rho_f *= 10.0
            if adopted:
                return violation("solver-refused-point-not-vetoed", f"step {t}: the filter front {front} dominates the new point {entry}, but the next step starts from it (no veto); m={case['spec']['m']}", labels, sub=T)
            if nx.rho != tr.rho:
                return violation("solver-rho-after-veto", f"step {t} vetoed but the next step's rho is {nx.rho!r} (was {tr.rho!r})", labels, sub=T)
        else:
            accepts += 1
            front = [e for e in front if not le(entry, e)] + [entry]
            if not adopted:
                return violation("solver-accepted-point-vetoed", f"step {t}: new point {entry} is not dominated by the front but the step was not adopted", labels, sub=T)
            if nx.rho != rho_f:
                return violation("solver-rho-after-accept", f"step {t} adopted: next rho {nx.rho!r}, filter penalty {rho_f!r} (= initial * 10^refusals)", labels, sub=T)
    if refusals:
        labels.append("has_refusal")
    if not (refusals >= 1 and accepts >= 2):
        return trivial("no_refusal_in_run", labels, sub=max(T, 1))
    return ok(labels, True, sub=max(T, 1))


def check(case):
    if "spec" in case:
        return check_solver_level(case)
    ops = case["ops"]
    chk = FilterChecker(case.get("rho0", 1.0), case.get("precision", "Double"))
    for k, op in enumerate(ops):
        try:
            bad = chk.apply(op)
        except Exception as e:  # the filter itself must not raise on finite pairs
            return violation(f"exception-{type(e).__name__}", f"op {k} {op}: {type(e).__name__}: {e}")
        if bad:
            return violation(bad[0], f"op {k} {op}: {bad[1]}", step=k)
    labels = [f"len:{min(len(ops), 8)}", f"via:{'+'.join(sorted({o[0] for o in ops})) or 'none'}"]
    nontriv = (chk.refusals >= 1 and chk.prunes >= 1) or (case.get("grid") and len(ops) >= 3)
    if chk.refusals:
        labels.append("has_refusal")
    if chk.prunes:
        labels.append("has_prune")
    if not nontriv:
        return trivial("no_refusal_or_prune", labels)
    return ok(labels, True, sub=len(ops))


def enumerate_cases(tier, shard, nshards):
    scopes = [(3, 5)] if tier == "quick" else [(3, 6), (4, 4)]
    idx = 0
    for k, length in scopes:
        grid = [(float(a), float(b)) for a in range(k) for b in range(k)]
        for seq in itertools.product(range(len(grid)), repeat=length):
            idx += 1
            if idx % nshards != shard:
                continue
            pts = [grid[i] for i in seq]
            for via in ("insert", "update"):
                yield {"grid": k, "ops": [[via, p[0], p[1]] for p in pts], "rho0": 1.0, "precision": "Single" if (idx // nshards) % 4 == 0 else "Double"}


SPECIAL = [0.0, -0.0, 1.0, -1.0, 1e-300, -1e-300, 1e300, -1e300, 5e-324, 2.0, 0.5, 4e38, 5e38, 1e-46, 2e-46, 17.0140173, 17.0140172]
VAL = st.one_of(
    st.sampled_from(SPECIAL),
    st.integers(-3, 3).map(float),
    st.floats(allow_nan=False, allow_infinity=False, width=64),
)


BUDGET_STRATEGY = {"quick": 25, "thorough": 600}


def strategy(tier):
    return solver_case_strategy(tier)


def solver_case_strategy(tier):
    from vf import solvecase as SC

    @st.composite
    def _s(draw):
        case = draw(SC.solve_case(families=("nlp", "nlp", "qp", "degenerate"), max_n=3, max_m=2, scalings=("none", "none", "custom"),
                                  iteration_limit=40, params_kw={"penalties": ["ObjectiveFilter", "LagrangianFilter"]}))
        if draw(st.booleans()):
            # unconstrained problems: the violation coordinate always ties
            sp = dict(case["spec"])
            sp.update({"m": 0, "A": [], "b": [], "cl": [], "cu": []})
            for k in ("Hc", "u", "T", "rshift"):
                sp.pop(k, None)
            case["spec"] = sp
            case["start"] = dict(case["start"], y0=None)
            if case["scaling"].get("kind") == "custom":
                case["scaling"] = dict(case["scaling"], cw=[])
        case["params"]["lamb_init"] = draw(st.sampled_from([1e-3, 1e-2, 0.1]))  # long first steps: non-monotone objective
        return case

    return _s()


def machine(tier, sink, checkfn):
    from hypothesis.stateful import RuleBasedStateMachine, initialize, rule

    class FilterMachine(RuleBasedStateMachine):
        def __init__(self):
            super().__init__()
            self.ops = []
            self.rho0 = 1.0
            self.chk = None
            self.bad = None
            self.solver_case = None

        @initialize(rho0=st.sampled_from([1e-8, 1.0, 100.0]), precision=st.sampled_from(["Double", "Double", "Single"]))
        def init(self, rho0, precision):
            self.rho0 = rho0
            self.precision = precision
            self.chk = FilterChecker(rho0, precision)

        def _do(self, op):
            if self.bad is not None:
                return
            self.ops.append(op)
            try:
                self.bad = self.chk.apply(op)
            except Exception as e:
                self.bad = (f"exception-{type(e).__name__}", f"{type(e).__name__}: {e}")

        @rule(a=VAL, b=VAL)
        def insert(self, a, b):
            self._do(["insert", a, b])

        @rule(a=VAL, b=VAL)
        def update(self, a, b):
            self._do(["update", a, b])

        @rule(data=st.data())
        def reoffer_stored(self, data):
            # ties / duplicates: offer a stored entry again, or a point sharing one coordinate
            if not self.chk or not self.chk.filt.entries:
                return
            e = data.draw(st.sampled_from(list(self.chk.filt.entries)))
            mode = data.draw(st.sampled_from(["same", "samefirst", "samesecond", "nearfirst", "nearsecond"]))
            other = data.draw(VAL)
            # near ties: closer than single-precision resolution, but distinct
            eps = data.draw(st.sampled_from([-1e-10, 1e-10, -1e-13, 1e-13]))
            pt = {"same": e, "samefirst": (e[0], other), "samesecond": (other, e[1]),
                  "nearfirst": (e[0] * (1 + eps) if e[0] else eps, e[1]), "nearsecond": (e[0], e[1] * (1 + eps) if e[1] else eps)}[mode]
            self._do([data.draw(st.sampled_from(["insert", "update"])), pt[0], pt[1]])

        def teardown(self):
            case = {"ops": self.ops, "rho0": self.rho0, "precision": getattr(self, "precision", "Double")}
            # the pure check function recomputes the verdict from the recorded operations
            sink(case, checkfn(case))

    return FilterMachine
