"""C09 -- observation does not perturb the computation.

Generated: problem x algorithmic configuration x scaling; observer settings: log level in
{disabled, WARNING, INFO, DEBUG} with a formatting handler (so every log record is rendered),
display_interval in {0, 0.1, inf} under a *pattern* virtual clock (generated increments =
arbitrary wall-clock patterns of displayed rows), an extra ComputedStep callback reading iterate
attributes, collect_path, report_rcond.

Oracle (metamorphic): the digest over every step computation (input iterate bytes, rho, dt,
returned lambda, accepted flag, next iterate bytes) and the result (status, x, y, d, counters) of
the observed run equals that of the unobserved baseline run of the same case, and the observed
run raises only if the baseline raised the same exception.
"""

import logging

import numpy as np
from hypothesis import strategies as st

from vf import solvecase as SC
from vf import strategies as S
from vf.clock import PatternClock, StepClock, virtual_clock
from vf.runner import excluded, ok, trivial, violation
from vf.trace import make_tracing_solver, quiet_logging, run_solve

ID = "C09"
LEVEL = "exploration"
BUDGET = {"quick": 25, "thorough": 600}
CASE_TIMEOUT = 120
RULE = (
    "case = (spec, start, params, scaling, two observer settings); each observed run is one "
    "execution compared with the unobserved baseline. distinct = SHA-256 of the case; non-trivial = "
    "at least one row was actually displayed in an observed run and the run has >= 5 step computations."
)
ASSUMPTIONS = ["wall-clock patterns are modelled by the virtual clock (the only way time enters pygradflow)"]


class FormattingHandler(logging.Handler):
    def __init__(self):
        super().__init__(level=0)
        self.n = 0
        self.setFormatter(logging.Formatter("%(levelname)s %(name)s %(message)s"))

    def emit(self, record):
        self.format(record)  # render the message: evaluates every lazily formatted argument
        self.n += 1


OBS = st.fixed_dictionaries(
    {
        "level": st.sampled_from(["disabled", "WARNING", "INFO", "DEBUG", "DEBUG"]),
        "display_interval": st.sampled_from([0.0, 0.1, float("inf")]),
        "clock": st.lists(st.sampled_from([0.0, 0.0, 0.01, 0.06, 0.2, 5.0]), min_size=1, max_size=8),
        "extra_callback": st.booleans(),
        "collect_path": st.booleans(),
        "report_rcond": st.booleans(),
    }
)


def strategy(tier):
    @st.composite
    def _s(draw):
        case = draw(
            SC.solve_case(
                families=("nlp", "nlp", "qp", "infeasible", "degenerate", "unbounded", "patternvar"),
                max_n=4 if tier == "quick" else 6,
                max_m=3,
                scalings=("none", "none", "custom", "gradjac"),
                iteration_limit=60 if tier == "quick" else 200,
            )
        )
        case["observers"] = [draw(OBS), draw(OBS)]
        if draw(st.integers(0, 2)) == 0:
            # callbacks that hand out cached objects (one per argument, or one constant Jacobian / Hessian for ever):
            # an observer that touches such an object changes what the solver computes with afterwards
            from vf.spec import Ref

            r = Ref(case["spec"])
            case["policy"] = {
                "obj_grad": draw(st.sampled_from(["fresh", "memo"])),
                "cons": draw(st.sampled_from(["fresh", "memo"])),
                "cons_jac": draw(st.sampled_from(["memo", "const", "const"] if r.affine else ["memo"])),
                "lag_hess": draw(st.sampled_from(["memo", "const"] if (r.affine and r.quadratic_obj) else ["memo"])),
            }
        if draw(st.integers(0, 3)) == 0:
            # a problem with a restricted domain: functions are non-finite further than R from the start
            # (deterministic in x, like a log-barrier objective); rejected trial points may be unevaluable
            case["domain"] = {"R": draw(st.sampled_from([0.1, 0.5, 2.0])), "component": draw(st.sampled_from(["obj", "any", "obj_grad", "cons"])), "value": draw(st.sampled_from(["nan", "inf"]))}
            case["params"]["lamb_inc"] = draw(st.sampled_from([2.0, 4.0]))
            case["params"]["lamb_init"] = draw(st.sampled_from([1e-3, 1e-2, 1.0]))
        if draw(st.integers(0, 5)) == 0 and case["spec"]["m"] > 0:
            # a constant Jacobian assembled term by term (COO triplets with duplicates) and handed out as one cached
            # object: whatever touches its storage changes the order of the floating-point sums of every later product
            from vf.spec import Ref

            spec = case["spec"]
            spec["fmt"] = dict(spec["fmt"], jac="coo", jac_style="dup")
            affine = Ref(spec).affine
            case["policy"] = dict(case.get("policy") or {}, cons_jac="const" if affine else "memo")
            if case["start"].get("y0") is not None:
                case["start"] = dict(case["start"], y0=[0.1 * (v if v else 1.0) for v in case["start"]["y0"]])
            if draw(st.booleans()):
                case["scaling"] = {"kind": "none"}
        if draw(st.integers(0, 4)) == 0:
            # condition-estimate stress: a dyadic negative Hessian diagonal meets lambda = 2^-k exactly, so
            # the reduced Newton matrix becomes singular and the (reporting-only) condition estimate
            # fails or degenerates -- with report_rcond on, that must not change or abort the solve
            n = draw(st.integers(1, 3))
            d = [-(draw(st.integers(1, 8)) / 8.0) for _ in range(n)]
            spec = {"n": n, "m": 0, "Q": np.diag(d).tolist(), "q": S.dvec(draw, n), "A": [], "b": [], "cl": [], "cu": [],
                    "lb": [draw(st.sampled_from([-4.0, -1.0, -float("inf")])) for _ in range(n)],
                    "ub": [draw(st.sampled_from([4.0, 1.0, float("inf")])) for _ in range(n)],
                    "fmt": draw(S.FMT), "family": "rcond_stress"}
            case["spec"] = spec
            case["start"] = draw(S.start_point(spec))
            case["scaling"] = {"kind": "none"}
            case["params"]["lamb_init"] = 1.0
            case["params"]["step_control_type"] = draw(st.sampled_from(["Exact", "DistanceRatio", "ResiduumRatio"]))
            case["params"]["linear_solver_type"] = draw(st.sampled_from(["MINRES", "GMRES", "LU"]))
            case["params"]["step_solver_type"] = "Symmetric" if case["params"]["linear_solver_type"] == "MINRES" else draw(st.sampled_from(S.STEP_SOLVERS))
            for o in case["observers"]:
                o["report_rcond"] = True
        return case

    return _s()


def _build(case, **extra):
    problem, params, x0, y0 = SC.build(case, **extra)
    dom = case.get("domain")
    if dom:
        from vf.faults import make_faulty_problem

        center = S.x0_array(case["spec"], case["start"]).tolist()
        problem = make_faulty_problem(problem, {"mode": "region", "center": center, "R": dom["R"], "component": dom["component"], "value": dom["value"], "entry": 0})
    return problem, params, x0, y0


def _observed_run(case, obs):
    from pygradflow.callbacks import CallbackType

    extra = {"display_interval": obs["display_interval"], "collect_path": obs["collect_path"], "report_rcond": obs["report_rcond"]}
    problem, params, x0, y0 = _build(case, **extra)
    solver = make_tracing_solver(problem, params)
    touched = []
    if obs["extra_callback"]:
        def cb(iterate, next_iterate, accept):
            # a typical user callback: reads (lazily evaluated, cached) attributes
            try:
                touched.append((float(iterate.obj), float(next_iterate.cons_violation), bool(accept), float(np.sum(next_iterate.z))))
            except ValueError:  # EvalError: the (rejected) trial point may lie outside the problem's domain
                touched.append(None)

        solver.callbacks.register(CallbackType.ComputedStep, cb)
    lg = logging.getLogger("gradflow")
    handler = FormattingHandler()
    old_level, old_handlers, old_prop = lg.level, list(lg.handlers), lg.propagate
    try:
        if obs["level"] != "disabled":
            lg.handlers = [handler]
            lg.setLevel(getattr(logging, obs["level"]))
        with virtual_clock(PatternClock(obs["clock"])):
            out = run_solve(problem, params, x0, y0, solver=solver)
    finally:
        lg.handlers = old_handlers
        lg.setLevel(old_level)
        lg.propagate = old_prop
    return out, handler.n


def check(case):
    labels = SC.config_labels(case)
    quiet_logging()
    try:
        problem, params, x0, y0 = _build(case, display_interval=float("inf"))
        solver = make_tracing_solver(problem, params)
    except Exception as e:
        return excluded(f"build:{type(e).__name__}", labels)
    if case.get("domain"):
        labels.append("restricted_domain")
    with virtual_clock(StepClock(None)):
        base = run_solve(problem, params, x0, y0, solver=solver)
    T = len(base.trials)
    displayed_any = False
    sub = 0
    for obs in case["observers"]:
        out, nrec = _observed_run(case, obs)
        sub += 1
        quiet_logging()
        tags = [f"log:{obs['level']}", f"interval:{obs['display_interval']}"] + [k for k in ("extra_callback", "collect_path", "report_rcond") if obs[k]]
        labels += [f"obs:{t}" for t in tags]
        shown = sum(1 for t in out.trials if t.display)
        displayed_any = displayed_any or shown > 0
        what = ",".join(tags)
        dims = [d for d in (f"log={obs['level']}" if obs["level"] == "DEBUG" else None, "rcond" if obs["report_rcond"] else None, "path" if obs["collect_path"] else None, "callback" if obs["extra_callback"] else None) if d]
        if out.exc is not None and (base.exc is None or type(out.exc) is not type(base.exc) or str(out.exc) != str(base.exc)):
            return violation(
                f"observed-run-raises|{out.exc_sig}",
                f"with observers [{what}] solve raised {type(out.exc).__name__}: {str(out.exc)[:160]} from {out.exc_sig} after {len(out.trials)} steps; the unobserved run {'raised ' + repr(base.exc) if base.exc else 'returned ' + base.result.status.name}",
                labels, sub=sub,
            )
        if out.digest != base.digest:
            k = next((i for i, (a, b) in enumerate(zip(out.trials, base.trials)) if (a.x_in, a.y_in, a.rho, a.dt, a.lamb, a.accepted, a.x_out, a.y_out) != (b.x_in, b.y_in, b.rho, b.dt, b.lamb, b.accepted, b.x_out, b.y_out)), None)
            return violation(
                f"trajectory-differs|{'+'.join(dims) or 'display'}",
                f"observers [{what}] changed the computation: first differing step {k} of {len(out.trials)} vs {T}; "
                f"status {out.result.status.name if out.result else out.exc!r} vs {base.result.status.name if base.result else base.exc!r}",
                labels, sub=sub,
            )
    if displayed_any:
        labels.append("row_displayed")
    if base.exc is not None:
        labels.append("baseline_raised")
    if not (displayed_any and T >= 5):
        return trivial("nothing_displayed_or_lt_5_steps", labels, sub=sub)
    return ok(labels, True, sub=sub)
