"""C20 -- automatic scalings normalise magnitudes with exact powers of two.

Generated: gradients, sparse Jacobians, symmetric Hessians and nominal values with entries
+-m*2^e, m in [1,2), e in [-40,40] (also integers-only and sub-unit-only data), arbitrary sparsity
including zero rows / columns / components; through Scaling.from_nominal_values, from_grad_jac,
from_equilibrated_kkt directly and through create_scaling on a generated problem.

Oracle (exact power-of-two arithmetic): weights are integer arrays; Nominal: every non-zero
|x_j| 2^vw_j and |c_i| 2^cw_i lies in [1,2); GradJac: every non-zero |g_j| 2^-vw_j lies in [1,2)
and for every non-zero Jacobian row max_j |J_ij| 2^(cw_i - vw_j) lies in [1,2); KKT (whenever the
equilibration returns): with w = [-vw; cw] every non-zero column of |D K D|, D = diag(2^w), has
absolute sum in [1,4) (1e-12 relative slack at the two ends for the different summation order).
"""

import numpy as np
from hypothesis import strategies as st

from vf.runner import excluded, ok, trivial, violation
from vf.spec import _to_sparse

ID = "C20"
LEVEL = "exploration"
BUDGET = {"quick": 150, "thorough": 20000}
RULE = (
    "case = (kind, data); data entries are +-m*2^e with drawn mantissa and exponent; distinct = "
    "SHA-256 of the case; non-trivial = the decisive entries (nominal values / gradient components "
    "/ row maxima / KKT column sums) include at least one < 1 and at least one > 1 -- the sub-unit "
    "regime is the one the repository's tests never visit."
)
ASSUMPTIONS = ["finite data; zero rows / columns / components are exempt as stated"]


@st.composite
def mag(draw, emin=-40, emax=40, allow_zero=True):
    if allow_zero and draw(st.integers(0, 5)) == 0:
        return 0.0
    m = draw(st.one_of(st.integers(16, 31).map(lambda k: k / 16.0), st.sampled_from([2.0 - 2.0**-40, 1.0 + 2.0**-40, 2.0 - 2.0**-52])))
    e = draw(st.integers(emin, emax))
    s = draw(st.sampled_from([-1.0, 1.0]))
    return float(s * np.ldexp(m, e))


def strategy(tier):
    nmax = 5 if tier == "quick" else 8

    @st.composite
    def _s(draw):
        kind = draw(st.sampled_from(["nominal", "gradjac", "gradjac", "kkt", "kkt", "create"]))
        n = draw(st.integers(1, nmax))
        m = draw(st.integers(0, 4))
        regime = draw(st.sampled_from(["wide", "wide", "sub_unit", "narrow", "extreme", "integral"]))
        if regime == "extreme" and kind == "kkt":
            regime = "wide"
        # "extreme": beyond the range (and mantissa resolution) of single precision
        # "integral": every entry is an integer below 2^31, so the "int" storage style yields integer-typed matrices
        emin, emax = {"wide": (-40, 40), "sub_unit": (-30, -1), "narrow": (-3, 3), "extreme": (-300, 300), "integral": (4, 26)}[regime]
        vec = lambda k: [draw(mag(emin, emax)) for _ in range(k)]  # noqa: E731
        case = {"kind": kind, "n": n, "m": m, "regime": regime}
        case["g"] = vec(n)
        nnz = draw(st.integers(0, 2 * m + 2)) if m else 0
        case["J"] = [[draw(st.integers(0, m - 1)), draw(st.integers(0, n - 1)), draw(mag(emin, emax, False))] for _ in range(nnz)]
        hn = draw(st.integers(0, 2 * n))
        case["H"] = [[draw(st.integers(0, n - 1)), draw(st.integers(0, n - 1)), draw(mag(emin, emax, False))] for _ in range(hn)]
        case["xs"] = vec(n)
        case["cs"] = vec(m)
        case["fmt"] = draw(st.sampled_from(["coo", "csr", "csc"]))
        # storage style of the sparse inputs: canonical, fixed pattern with stored zeros, duplicate entries
        case["style"] = draw(st.sampled_from([None, None, "zeros", "dup", "int"]))
        if kind == "create":
            case["stype"] = draw(st.sampled_from(["Nominal", "GradJac", "KKT"]))
            case["via"] = draw(st.sampled_from(["create_scaling", "transformation_double", "transformation_single"]))
            # variable bounds relative to the scaling point (which need not satisfy them: its evaluation is exempt
            # from the bounds, see C05): None = unbounded problem
            case["bounds"] = draw(st.one_of(st.none(), st.lists(st.sampled_from(["free", "inside", "below", "above"]), min_size=n, max_size=n)))
        return case

    return _s()


def mats(case):
    n, m = case["n"], case["m"]
    J = np.zeros((m, n))
    for i, j, v in case["J"]:
        J[i, j] = v  # last one wins: no duplicate summation
    H = np.zeros((n, n))
    for i, j, v in case["H"]:
        H[i, j] = v
        H[j, i] = v
    return J, H


def in12(v):
    return 1.0 <= v < 2.0


def check_weights_int(w, name):
    w = np.asarray(w)
    if not np.issubdtype(w.dtype, np.integer):
        return f"{name} weights have dtype {w.dtype}"
    return None


def oracle_nominal(vals, weights, what):
    vals = np.asarray(vals, dtype=float)
    for j, v in enumerate(vals):
        if v == 0.0:
            continue
        s = abs(v) * float(np.ldexp(1.0, int(weights[j])))
        if not in12(s):
            return f"{what}[{j}]={v!r} scaled by 2^{int(weights[j])} = {s!r} not in [1,2)"
    return None


def oracle_gradjac(g, J, vw, cw):
    for j, v in enumerate(g):
        if v == 0.0:
            continue
        s = abs(v) * float(np.ldexp(1.0, -int(vw[j])))
        if not in12(s):
            return "grad", f"|g[{j}]|={abs(v)!r} * 2^{-int(vw[j])} = {s!r} not in [1,2)"
    for i in range(J.shape[0]):
        row = np.abs(J[i]) * np.ldexp(1.0, int(cw[i]) - np.asarray(vw, dtype=int))
        if not np.any(J[i] != 0.0):
            continue
        mx = float(np.max(row))
        if not in12(mx):
            return "jacrow", f"row {i}: max_j |J_ij| 2^(cw_i - vw_j) = {mx!r} not in [1,2) (row {J[i].tolist()}, cw={int(cw[i])}, vw={np.asarray(vw).tolist()})"
    return None


def oracle_kkt(H, J, vw, cw):
    n, m = H.shape[0], J.shape[0]
    K = np.block([[H, J.T], [J, np.zeros((m, m))]])
    w = np.concatenate([-np.asarray(vw, dtype=int), np.asarray(cw, dtype=int)])
    D = np.ldexp(1.0, w)
    S = np.abs(K) * D[:, None] * D[None, :]
    for k in range(n + m):
        if not np.any(K[:, k] != 0.0):
            continue
        cs = float(np.sum(S[:, k]))
        if not (1.0 * (1 - 1e-12) <= cs < 4.0 * (1 + 1e-12)):
            return f"column {k} of |DKD| sums to {cs!r} not in [1,4) (weights {w.tolist()})"
    return None


def check(case):
    import scipy.sparse as sps

    from pygradflow.scale import Scaling

    n, m = case["n"], case["m"]
    J, H = mats(case)
    g = np.array(case["g"], dtype=float)
    kind = case["kind"]
    labels = [f"kind:{kind}", f"regime:{case['regime']}", f"fmt:{case['fmt']}", f"style:{case.get('style')}"]
    conv = lambda D: _to_sparse(D, case["fmt"], case.get("style"))  # noqa: E731
    decisive = []
    try:
        if kind == "nominal":
            xs, cs = np.array(case["xs"], dtype=float), np.array(case["cs"], dtype=float)
            sc = Scaling.from_nominal_values(xs, cs)
            for w, nm in ((sc.var_weights, "var"), (sc.cons_weights, "cons")):
                e = check_weights_int(w, nm)
                if e:
                    return violation("weights-not-integer|nominal", e, labels)
            for vals, w, nm in ((xs, sc.var_weights, "x"), (cs, sc.cons_weights, "c")):
                e = oracle_nominal(vals, w, nm)
                if e:
                    return violation("nominal-not-normalised", e, labels)
            decisive = [abs(v) for v in list(xs) + list(cs) if v != 0.0]
        elif kind == "gradjac":
            sc = Scaling.from_grad_jac(g.copy(), conv(J) if m > 0 else None)
            for w, nm in ((sc.var_weights, "var"), (sc.cons_weights, "cons")):
                e = check_weights_int(w, nm)
                if e:
                    return violation("weights-not-integer|gradjac", e, labels)
            if len(sc.cons_weights) != m:
                return violation("gradjac-shape", f"{len(sc.cons_weights)} row weights for {m} rows", labels)
            e = oracle_gradjac(g, J, sc.var_weights, sc.cons_weights)
            if e:
                return violation(f"gradjac-not-normalised|{e[0]}", e[1], labels)
            decisive = [abs(v) for v in g if v != 0.0]
            for i in range(m):
                if np.any(J[i] != 0):
                    decisive.append(float(np.max(np.abs(J[i]) * np.ldexp(1.0, -np.asarray(sc.var_weights, dtype=int)))))
        elif kind == "kkt":
            try:
                sc = Scaling.from_equilibrated_kkt(conv(H), conv(J))
            except Exception as e:
                if type(e) is Exception and "Equilibration failed to converge" in str(e):
                    return excluded("equilibration_did_not_return", labels)
                raise
            for w, nm in ((sc.var_weights, "var"), (sc.cons_weights, "cons")):
                e = check_weights_int(w, nm)
                if e:
                    return violation("weights-not-integer|kkt", e, labels)
            e = oracle_kkt(H, J, sc.var_weights, sc.cons_weights)
            if e:
                return violation("kkt-not-equilibrated", e, labels)
            K = np.block([[H, J.T], [J, np.zeros((m, m))]])
            decisive = [float(s) for s in np.sum(np.abs(K), axis=0) if s != 0.0]
        else:
            return _check_create(case, labels)
    except Exception as e:
        return violation(f"exception-{type(e).__name__}|{kind}", f"{kind}: {type(e).__name__}: {e}", labels)
    nontriv = any(v < 1.0 for v in decisive) and any(v > 1.0 for v in decisive)
    if any(v < 1.0 for v in decisive):
        labels.append("has_sub_unit")
    if not nontriv:
        return trivial("one_sided_magnitudes", labels)
    return ok(labels, True)


def _check_create(case, labels):
    """through create_scaling on a problem whose derivatives at the scaling point are the data"""
    import scipy.sparse as sps

    from pygradflow.params import Params, ScalingType
    from pygradflow.problem import Problem
    from pygradflow.scale import create_scaling

    n, m = case["n"], case["m"]
    J, H = mats(case)
    g = np.array(case["g"], dtype=float)
    cs = np.array(case["cs"], dtype=float)
    xs = np.array(case["xs"], dtype=float)
    conv = lambda D: _to_sparse(D, case["fmt"], case.get("style"))  # noqa: E731

    lb, ub = np.full(n, -np.inf), np.full(n, np.inf)
    for j, k in enumerate(case.get("bounds") or []):
        w = 1.0 + abs(xs[j])
        if k == "inside":
            lb[j], ub[j] = xs[j] - w, xs[j] + w
        elif k == "below":  # the box lies below the scaling point
            ub[j] = xs[j] - w
        elif k == "above":
            lb[j] = xs[j] + w
    if case.get("bounds"):
        labels.append("bounded:" + ("scaling_point_outside" if any(k in ("below", "above") for k in case["bounds"]) else "scaling_point_inside"))

    def at_xs(x):
        return np.array_equal(np.asarray(x, dtype=float), xs)

    class P(Problem):
        """the data are the derivatives AT the scaling point; anywhere else the functions are different"""

        def __init__(self):
            kw = dict(cons_lb=np.zeros(m), cons_ub=np.zeros(m)) if m else {}
            super().__init__(lb, ub, **kw)

        def obj(self, x):
            return 0.0

        def obj_grad(self, x):
            return g.copy() if at_xs(x) else 8.0 * g + 3.0

        def cons(self, x):
            return cs.copy() if at_xs(x) else 8.0 * cs + 3.0

        def cons_jac(self, x):
            return conv(J if at_xs(x) else 8.0 * J)

        def lag_hess(self, x, y):
            return conv(H if at_xs(x) else 8.0 * H)

    stype = case["stype"]
    labels.append(f"create:{stype}")
    via = case.get("via", "create_scaling")
    labels.append(f"via:{via}")
    try:
        if via == "create_scaling":
            params = Params(scaling_type=ScalingType[stype])
            sc = create_scaling(P(), params, xs.copy(), np.zeros(m))
        else:
            # the way a Solver obtains it: through the Transformation, for either working precision
            # (the scaling is a property of the user's double-precision data)
            from pygradflow.params import Precision
            from pygradflow.transform import Transformation

            params = Params(scaling_type=ScalingType[stype], scaling_primal=xs.copy(), scaling_dual=np.zeros(m),
                            precision=Precision.Single if via == "transformation_single" else Precision.Double)
            sc = Transformation(P(), params).scaling
    except Exception as e:
        if stype == "KKT" and type(e) is Exception and "Equilibration failed to converge" in str(e):
            return excluded("equilibration_did_not_return", labels)
        return violation(f"exception-{type(e).__name__}|create-{stype}", f"create_scaling({stype}): {type(e).__name__}: {e}", labels)
    for w, nm in ((sc.var_weights, "var"), (sc.cons_weights, "cons")):
        e = check_weights_int(w, nm)
        if e:
            return violation(f"weights-not-integer|create-{stype}", e, labels)
    if stype == "Nominal":
        e = oracle_nominal(xs, sc.var_weights, "x") or oracle_nominal(cs, sc.cons_weights, "c")
        if e:
            return violation("nominal-not-normalised", e, labels)
        decisive = [abs(v) for v in list(xs) + list(cs) if v != 0]
    elif stype == "GradJac":
        e = oracle_gradjac(g, J, sc.var_weights, sc.cons_weights)
        if e:
            return violation(f"gradjac-not-normalised|{e[0]}", e[1], labels)
        decisive = [abs(v) for v in g if v != 0]
    else:
        e = oracle_kkt(H, J, sc.var_weights, sc.cons_weights)
        if e:
            return violation("kkt-not-equilibrated", e, labels)
        K = np.block([[H, J.T], [J, np.zeros((m, m))]])
        decisive = [float(s) for s in np.sum(np.abs(K), axis=0) if s != 0.0]
    nontriv = any(v < 1.0 for v in decisive) and any(v > 1.0 for v in decisive)
    if not nontriv:
        return trivial("one_sided_magnitudes", labels)
    return ok(labels, True)
