"""C02 -- non-optimal terminal statuses are justified by the returned point.

Generated: infeasible family (inconsistent rows; |x|^2/2 + k = 0; row bounds unreachable inside
the box), unbounded family (linear / concave descent along a feasible ray), ordinary problems;
run naturally, under an iteration budget k in 0..40, or under a virtual clock whose deadline
expires at the j-th clock read; all controllers and penalty policies; with and without scaling.

Oracle (dense reference of the user's functions at result.x; scaling weights only as powers of two):
LocallyInfeasible: scaled violation v_i = 2^cw_i * signed-dist(c_i(x), [l_i,u_i]) has
max|v_i| > 0.98 opt_tol and the box-projected gradient of 1/2|v|^2, P_box(J_s' v), is bounded by
local_infeas_tol + (active_tol + local_infeas_tol) |J_s|_1 (J_s the scaled Jacobian).
Unbounded: x in the box, max|v_i| <= opt_tol, 2^ow f(x) <= obj_lower_limit.
IterationLimit <=> iterations == limit; never more _compute_step calls than the limit.
TimeLimit only if a clock read before the return was past the deadline.
"""

import numpy as np
from hypothesis import strategies as st

from vf import solvecase as SC
from vf import strategies as S
from vf.clock import StepClock, virtual_clock
from vf.runner import excluded, ok, trivial, violation
from vf.spec import Ref
from vf.trace import make_tracing_solver, run_solve

ID = "C02"
LEVEL = "exploration"
BUDGET = {"quick": 35, "thorough": 800}
CASE_TIMEOUT = 90
RULE = (
    "case = (spec, start, params, scaling, mode in natural|iterlimit(k)|deadline(j)); distinct = "
    "SHA-256 of the case; non-trivial = the run ended with one of LocallyInfeasible, Unbounded, "
    "IterationLimit (limit >= 1), TimeLimit and that status' oracle was evaluated."
)
REQUIRED_LABELS = {
    "quick": ["status:LocallyInfeasible", "status:Unbounded", "status:IterationLimit", "status:TimeLimit"],
    "thorough": ["status:LocallyInfeasible", "status:Unbounded", "status:IterationLimit", "status:TimeLimit"],
}
ASSUMPTIONS = [
    "virtual clock: wall time enters pygradflow only through pygradflow.timer.time",
    "fixed variables are treated leniently in the stationarity test (the implementation is stricter there)",
]


def strategy(tier):
    @st.composite
    def _s(draw):
        fam = draw(st.sampled_from(["infeasible", "infeasible", "unbounded", "unbounded", "nlp", "qp"]))
        case = draw(SC.solve_case(families=(fam,), max_n=4, max_m=3, scalings=("none", "none", "custom", "gradjac"), iteration_limit=None))
        if fam in ("nlp", "qp") and case["spec"]["m"] > 0 and draw(st.integers(0, 3)) == 0:
            # poorly scaled rows (multiplied by 2^-k, exactly): the gradient of the violation measure, J'v, is small
            # wherever the violation is small -- the two tolerances of the LocallyInfeasible test come close
            sp_ = case["spec"]
            k = draw(st.integers(7, 12))
            f = 2.0 ** -k
            sp_["A"] = (np.array(sp_["A"], dtype=float) * f).tolist()
            for key in ("b", "cl", "cu", "u", "rshift"):
                if sp_.get(key) is not None:
                    sp_[key] = (np.array(sp_[key], dtype=float) * f).tolist()
            if sp_.get("Hc") is not None:
                sp_["Hc"] = (np.array(sp_["Hc"], dtype=float) * f).tolist()
            sp_["family"] = sp_.get("family", fam) + "+smallrows"
        mode = draw(st.sampled_from(["natural", "natural", "iterlimit", "deadline", "realclock"]))
        case["mode"] = mode
        if mode == "realclock":
            # the real wall clock: TimeLimit must never come back before time_limit has really elapsed
            case["time_limit"] = draw(st.sampled_from([0.02, 0.2, 2.0]))
            case["limit"] = 400
        elif mode == "iterlimit":
            case["limit"] = draw(st.integers(0, 40))
        elif mode == "deadline":
            case["expire_at"] = draw(st.integers(0, 120))
            case["limit"] = 300
        else:
            case["limit"] = 400 if tier == "quick" else 1500
        lim = draw(st.sampled_from([-1e3, -1e3, -1e10, -1.0, -30.0]))
        case["params_extra"] = {"obj_lower_limit": lim}
        if lim > -100.0 and fam in ("nlp", "qp") and "magnified" not in case["spec"].get("family", "") and draw(st.booleans()):
            # a moderate objective limit on a problem translated far from the origin: the flow may dip below the limit at
            # points that are still infeasible while |x| is large -- "feasible to tolerance" is an absolute statement
            spec = draw(S.magnified(case["spec"]))
            case["spec"] = spec
            case["start"] = draw(S.start_point(spec))
            case["scaling"] = draw(S.scaling_dict_strategy(spec, kinds=("none", "none", "custom", "gradjac")))
        sck = (case.get("scaling") or {}).get("kind", "none")
        if fam in ("nlp", "qp", "infeasible") and sck in ("none", "custom") and draw(st.integers(0, 3)) == 0:
            # a limit the start already undercuts: Unbounded may come back at once, but only if the start is feasible
            f0 = float(Ref(case["spec"]).f(S.x0_array(case["spec"], case["start"])))
            ow = int(case["scaling"].get("ow", 0)) if sck == "custom" else 0
            if np.isfinite(f0):
                case["params_extra"] = {"obj_lower_limit": float(np.ldexp(f0, ow)) + draw(st.sampled_from([0.5, 8.0]))}
        return case

    return _s()


def scaled_violation(r, x, cw):
    c = r.c(x)
    v = np.zeros(r.m)
    for i in range(r.m):
        if c[i] < r.cl[i]:
            v[i] = c[i] - r.cl[i]
        elif c[i] > r.cu[i]:
            v[i] = c[i] - r.cu[i]
    return v * np.ldexp(1.0, np.asarray(cw, dtype=int)), c


def check(case):
    from pygradflow.status import SolverStatus

    spec = case["spec"]
    labels = SC.config_labels(case) + [f"mode:{case['mode']}"]
    limit = int(case["limit"])
    try:
        tl = {"time_limit": 1.0} if case["mode"] == "deadline" else ({"time_limit": float(case["time_limit"])} if case["mode"] == "realclock" else {})
        problem, params, x0, y0 = SC.build(case, iteration_limit=limit, **tl)
        solver = make_tracing_solver(problem, params)
    except Exception as e:
        return excluded(f"build:{type(e).__name__}", labels)
    if case["mode"] == "realclock":
        import time as _time

        t0 = _time.perf_counter()
        out = run_solve(problem, params, x0, y0, solver=solver)
        wall = _time.perf_counter() - t0
        if out.exc is not None:
            return trivial(f"raised:{type(out.exc).__name__}", labels)
        labels.append(f"status:{out.result.status.name}")
        if out.result.status == SolverStatus.TimeLimit:
            # one-sided and therefore immune to machine load: a slow machine only makes `wall` larger
            if wall < 0.98 * params.time_limit:
                return violation("timelimit-before-deadline|realclock", f"TimeLimit returned after {wall:.4f}s of wall-clock time with time_limit={params.time_limit}s ({out.result.iterations} iterations)", labels)
            return ok(labels + ["realclock_timelimit"], True, wall=wall)
        return trivial("realclock_no_timelimit", labels)
    clock = StepClock(case.get("expire_at") if case["mode"] == "deadline" else None)
    with virtual_clock(clock):
        out = run_solve(problem, params, x0, y0, solver=solver)
    ntrials = len(out.trials)
    if ntrials > limit:
        return violation("more-trials-than-limit", f"{ntrials} step computations with iteration_limit={limit} (ended by {'exception' if out.exc else out.result.status.name})", labels)
    if out.exc is not None:
        return trivial(f"raised:{type(out.exc).__name__}", labels)
    res = out.result
    st_ = res.status
    labels.append(f"status:{st_.name}")
    r = Ref(spec)
    vw, cw, ow = S.weights_of(solver, spec)
    TAU, ALPHA, LIT = params.opt_tol, params.active_tol, params.local_infeas_tol
    x = np.asarray(res.x, dtype=float)
    # iteration-limit equivalence holds for every returned status
    if (st_ == SolverStatus.IterationLimit) != (res.iterations == limit):
        return violation("iterationlimit-iff-count", f"status {st_.name} with iterations={res.iterations}, limit={limit}", labels)
    if res.iterations != ntrials:
        return violation("iterations-vs-trials", f"result.iterations={res.iterations} but {ntrials} step computations", labels)
    if st_ == SolverStatus.Optimal:
        return trivial("optimal", labels)
    if st_ == SolverStatus.IterationLimit:
        if limit == 0:
            return trivial("limit0", labels)
        return ok(labels, True, iterations=int(res.iterations))
    if st_ == SolverStatus.TimeLimit:
        if case["mode"] != "deadline":
            return violation("timelimit-without-deadline", f"TimeLimit with time_limit={params.time_limit}", labels)
        if not any(v >= 1.0 for v in clock.values):
            return violation("timelimit-before-deadline", f"TimeLimit returned but all {clock.reads} clock reads were before the deadline (expire_at={case['expire_at']})", labels)
        return ok(labels, True, reads=clock.reads)
    if not (np.all(np.isfinite(x))):
        return violation("nonfinite-x", f"{st_.name} with x={x.tolist()}", labels)
    v, c = scaled_violation(r, x, cw)
    vmax = float(np.max(np.abs(v), initial=0.0))
    if st_ == SolverStatus.Unbounded:
        if not r.in_box(x):
            return violation("unbounded-outside-box", f"x={x.tolist()} outside bounds", labels)
        if vmax > SC.slack(TAU, c):
            return violation("unbounded-infeasible", f"Unbounded at a point with scaled violation {vmax:.3e} > opt_tol", labels)
        fs = r.f(x) * 2.0**ow
        lim = params.obj_lower_limit
        if not fs <= lim + 1e-9 * abs(lim):
            return violation("unbounded-objective-above-limit", f"Unbounded with scaled objective {fs!r} > obj_lower_limit {lim!r}", labels)
        return ok(labels, True, scaled_obj=float(fs))
    assert st_ == SolverStatus.LocallyInfeasible
    if vmax <= 0.98 * TAU:
        return violation("infeasible-but-feasible", f"LocallyInfeasible at a point with scaled violation {vmax:.3e} <= opt_tol; c={c.tolist()}", labels)
    Js = r.J(x) * np.ldexp(1.0, cw[:, None] - vw[None, :])
    grad = Js.T @ v
    fv = np.ldexp(1.0, vw)
    xs, lbs, ubs = x * fv, r.lb * fv, r.ub * fv
    a = ALPHA * (1 + 1e-6) + 1e-300
    at_lo = np.abs(xs - lbs) <= a
    at_up = np.abs(ubs - xs) <= a
    pg = grad.copy()
    pg[at_lo] = np.minimum(pg[at_lo], 0.0)
    pg[at_up] = np.maximum(pg[at_up], 0.0)
    pg[at_lo & at_up] = 0.0
    norm1 = float(np.max(np.sum(np.abs(Js), axis=0), initial=0.0))
    bound = LIT + (ALPHA + LIT) * norm1 + 1e-12 * float(np.sum(np.abs(Js) * np.abs(v)[:, None]))
    pgn = float(np.max(np.abs(pg), initial=0.0))
    if pgn > bound * (1 + 1e-6):
        return violation("infeasible-not-stationary", f"LocallyInfeasible but projected gradient of the violation measure is {pgn:.3e} > {bound:.3e} (x={x.tolist()}, v={v.tolist()})", labels)
    return ok(labels, True, violation=vmax, projected_gradient=pgn)
