"""C17 -- linear solvers return the solution or fail loudly.

Generated: square sparse systems, n in 1..30 (quick) / 1..60 (thorough): KKT-like symmetric
indefinite [[H+lI, J'],[J, -dI]], unsymmetric with a dominant-ish diagonal, and structurally
singular ones (empty row, empty column, two rows supported on one column); COO/CSR/CSC input;
right-hand sides scaled 10^[-3,3]; forward and transposed solves; initial guess in {none, zero,
exact solution, random} passed as a callable like the step solvers do; solver in {LU, GMRES,
MINRES (symmetric systems only)}.

Oracle: dense residual.  Nonsingular (cond_2 <= 1e3, checked densely): finite result with
LU: |Ax-b| <= 1e-12 n (|A|_F |x| + |b|); GMRES: |Ax-b| <= 1.01 max(1e-5 |b|, 1e-8) (its stated
rtol/atol); MINRES: scipy's stated stopping rule rnorm <= rtol * Anorm_est * |x| bounded soundly
by 4e-5 sqrt(3(5n+1)|A|_2^2 + |b - A x0|^2) |x|, or its least-squares stopping rule |A r| <= rtol * Anorm_est * |r|
(both end with info == 0; found by the thorough tier: a 7x7 system, cond 320, where MINRES stops after two iterations
with |r| = 0.91 |b| because its norm estimate is dominated by the initial residual).  Singular: LU raises LinearSolverError; GMRES
raises LinearSolverError or returns a finite vector meeting its tolerance.  No solver may raise
anything but LinearSolverError.
"""

import numpy as np
from hypothesis import strategies as st

from vf.runner import excluded, ok, trivial, violation

ID = "C17"
LEVEL = "exploration"
BUDGET = {"quick": 150, "thorough": 20000}
RULE = (
    "case = (matrix triplets, kind, format, rhs, trans, initial-guess kind, solver); distinct = "
    "SHA-256 of the case; non-trivial = n >= 3 and (transposed solve, an initial guess, a non-CSC "
    "input format, or a singular system)."
)
ASSUMPTIONS = [
    "condition number <= 1e3 ('moderate') is enforced by a dense SVD; worse systems are excluded and counted",
    "MINRES is only offered symmetric systems (documented restriction)",
]


@st.composite
def triplets(draw, rows, cols, per_row=3):
    k = draw(st.integers(0, max(1, per_row * rows)))
    out = []
    for _ in range(k):
        out.append([draw(st.integers(0, rows - 1)), draw(st.integers(0, cols - 1)), draw(st.integers(-16, 16)) / 8.0])
    return out


def strategy(tier):
    nmax = 30 if tier == "quick" else 60

    @st.composite
    def _s(draw):
        kind = draw(st.sampled_from(["kkt", "kkt", "unsym", "unsym", "cyclic", "singular"]))
        n = draw(st.one_of(st.integers(1, 8), st.integers(1, nmax)))
        case = {"kind": kind, "n": n}
        if kind == "kkt":
            n1 = draw(st.integers(1, n))
            m1 = n - n1
            case["n1"] = n1
            case["H"] = draw(triplets(n1, n1, 2))
            case["J"] = draw(triplets(m1, n1, 2)) if m1 else []
            case["lam"] = draw(st.sampled_from([0.5, 1.0, 4.0, 10.0]))
            case["delta"] = draw(st.sampled_from([0.1, 1.0, 5.0, 1e-3, 1e-6, 1e-9]))  # -lamb/(1+lamb*rho) is tiny for large dt
        elif kind == "unsym":
            case["T"] = draw(triplets(n, n, 3))
            case["diag"] = [draw(st.sampled_from([-1, 1])) * draw(st.integers(4, 40)) / 8.0 for _ in range(n)]
            case["dom"] = draw(st.sampled_from([0.0, 0.5, 1.0, 2.0]))
        elif kind == "cyclic":
            # scaled cyclic shift (orthogonal up to scaling, cond <= 4) plus a small sparse perturbation:
            # eigenvalues surround the origin -- the classic hard case for restarted GMRES
            case["shift"] = draw(st.integers(1, max(1, n - 1)))
            case["diag"] = [draw(st.sampled_from([-1, 1])) * draw(st.integers(8, 16)) / 8.0 for _ in range(n)]
            case["T"] = draw(triplets(n, n, 1))
            case["eps"] = draw(st.sampled_from([0.0, 0.01, 0.05]))
        else:
            case["T"] = draw(triplets(n, n, 3))
            case["diag"] = [draw(st.integers(4, 40)) / 8.0 for _ in range(n)]
            case["sing"] = draw(st.sampled_from(["empty_row", "empty_col", "two_rows_one_col"] if n >= 2 else ["empty_row", "empty_col"]))
            case["at"] = draw(st.integers(0, n - 1))
            case["at2"] = draw(st.integers(0, n - 1))
        case["fmt"] = draw(st.sampled_from(["csc", "csr", "coo"]))
        # storage dtype of the matrix: scipy accepts integer-typed sparse matrices (the solvers convert them)
        case["mdtype"] = draw(st.sampled_from(["float", "float", "float", "int64", "int32"]))
        case["rhs"] = [draw(st.integers(-16, 16)) / 8.0 for _ in range(n)]
        case["rhs_scale"] = draw(st.sampled_from([1e-3, 1.0, 1.0, 1e3, 0.0, 1e-9]))  # (zero and below-tolerance right-hand sides)
        case["trans"] = draw(st.booleans())
        case["guess"] = draw(st.sampled_from(["none", "zero", "exact", "random"]))
        case["guess_vec"] = [draw(st.integers(-16, 16)) / 8.0 for _ in range(n)] if case["guess"] == "random" else None
        case["solver"] = draw(st.sampled_from(["LU", "GMRES", "MINRES"]))
        return case

    return _s()


def build_matrix(case):
    n = case["n"]
    A = np.zeros((n, n))
    if case["kind"] == "kkt":
        n1 = case["n1"]
        H = np.zeros((n1, n1))
        for i, j, v in case["H"]:
            H[i, j] += v
            if i != j:
                H[j, i] += v
        H += case["lam"] * np.eye(n1)
        A[:n1, :n1] = H
        m1 = n - n1
        if m1:
            J = np.zeros((m1, n1))
            for i, j, v in case["J"]:
                J[i, j] += v
            A[n1:, :n1] = J
            A[:n1, n1:] = J.T
            A[n1:, n1:] = -case["delta"] * np.eye(m1)
    elif case["kind"] == "cyclic":
        d = np.array(case["diag"], dtype=float)
        for i in range(n):
            A[i, (i + case["shift"]) % n] = d[i]
        for i, j, v in case["T"]:
            A[i, j] += case["eps"] * v
    else:
        for i, j, v in case["T"]:
            if i != j:
                A[i, j] += v
        d = np.array(case["diag"], dtype=float)
        if case["kind"] == "unsym":
            rs = np.sum(np.abs(A), axis=1)
            d = d + np.sign(d) * case["dom"] * rs
        A += np.diag(d)
        if case["kind"] == "singular":
            a, b = case["at"], case["at2"]
            if case["sing"] == "empty_row":
                A[a, :] = 0.0
            elif case["sing"] == "empty_col":
                A[:, a] = 0.0
            else:
                if a == b:
                    b = (a + 1) % n
                col = case["at"]
                ra, rb = a, b
                A[ra, :] = 0.0
                A[rb, :] = 0.0
                A[ra, col] = 1.0
                A[rb, col] = 2.0
    return A


def check(case):
    import scipy.sparse as sps

    from pygradflow.linear_solver import LinearSolverError, linear_solver
    from pygradflow.params import LinearSolverType

    n = case["n"]
    A = build_matrix(case)
    mdtype = float
    if case.get("mdtype", "float") != "float" and np.array_equal(A * 8.0, np.rint(A * 8.0)):
        # all entries are multiples of 1/8: the matrix 8*A has integer entries and is stored with an integer dtype
        A = A * 8.0
        mdtype = np.dtype(case["mdtype"])
    symmetric = bool(np.array_equal(A, A.T))
    solver_name = case["solver"]
    labels = [f"kind:{case['kind']}", f"solver:{solver_name}", f"fmt:{case['fmt']}", f"trans:{case['trans']}", f"guess:{case['guess']}", f"n:{'1-2' if n < 3 else '3-20' if n <= 20 else '21+'}"]
    if solver_name == "MINRES" and not symmetric:
        solver_name = "GMRES"
        labels[1] = "solver:GMRES"
    singular = case["kind"] == "singular"
    if not singular:
        sv = np.linalg.svd(A, compute_uv=False)
        if sv[-1] <= 0 or sv[0] / sv[-1] > 1e3:
            return excluded("cond_gt_1e3", labels)
    M = {"csc": sps.csc_matrix, "csr": sps.csr_matrix, "coo": sps.coo_matrix}[case["fmt"]](A.astype(mdtype))
    if mdtype is not float:
        labels.append(f"matrix_dtype:{mdtype}")
    if singular and solver_name == "MINRES":
        return excluded("minres_singular_not_specified", labels)
    b = np.array(case["rhs"], dtype=float) * case["rhs_scale"]
    At = A.T if case["trans"] else A
    guess = None
    x0 = None
    if case["guess"] != "none" and not (singular and case["guess"] == "exact"):
        if case["guess"] == "zero":
            x0 = np.zeros(n)
        elif case["guess"] == "exact":
            x0 = np.linalg.solve(At, b)
        else:
            x0 = np.array(case["guess_vec"], dtype=float)
        guess = lambda: x0.copy()  # noqa: E731
    stype = LinearSolverType[solver_name]
    sig0 = f"{solver_name}|{'singular' if singular else 'regular'}"
    try:
        sol = linear_solver(M, stype, symmetric=symmetric)
        if guess is not None:
            x = sol.solve(b.copy(), trans=case["trans"], initial_sol=guess)
        else:
            x = sol.solve(b.copy(), trans=case["trans"])
    except LinearSolverError as e:
        if singular:
            return ok(labels + ["raised_LinearSolverError"], n >= 3)
        extra = ""
        if solver_name == "GMRES" and n > 20:
            # The known finding F9 is precisely this: restarted GMRES(20) with the documented budget of n restart cycles
            # (scipy defaults: restart=20, rtol=1e-5; atol=1e-8 as in GMRESSolver) does not converge on this very system.
            # If that reference run does converge, the failure has another cause and is reported separately.
            import scipy.sparse.linalg as spla

            Mt = M.T if case["trans"] else M
            _, ref_info = spla.gmres(Mt, b.copy(), restart=20, maxiter=n, x0=(x0.copy() if x0 is not None else None), atol=1e-8)
            if ref_info == 0:
                extra = "|reference-gmres20-converges"
        return violation(f"regular-system-fails|{sig0}|n{'>20' if n > 20 else '<=20'}{extra}", f"{solver_name} raised LinearSolverError({e}) on a nonsingular system, n={n}, cond<=1e3, trans={case['trans']}" + (" although restarted GMRES(20) with n restart cycles converges on it" if extra else ""), labels)
    except Exception as e:
        return violation(f"wrong-exception-{type(e).__name__}|{sig0}", f"{solver_name}: {type(e).__name__}: {e}", labels)
    x = np.asarray(x, dtype=float)
    if x.shape != (n,):
        return violation(f"shape|{sig0}", f"solution shape {x.shape}", labels)
    if singular and solver_name == "LU":
        return violation("lu-singular-returns", f"LU returned {x.tolist()} for a structurally singular matrix ({case['sing']})", labels)
    if not np.all(np.isfinite(x)):
        return violation(f"nonfinite|{sig0}", f"{solver_name} returned non-finite {x.tolist()}", labels)
    res = float(np.linalg.norm(At @ x - b))
    nb = float(np.linalg.norm(b))
    if solver_name == "LU":
        bound = 1e-12 * n * (np.linalg.norm(A, "fro") * np.linalg.norm(x) + nb) + 1e-300
    elif solver_name == "GMRES":
        bound = max(1e-5 * nb, 1e-8) * 1.01
        if guess is not None:
            # documented early return: initial guess accepted when its residual is < 1e-8 (inf-norm)
            bound = max(bound, 1e-8 * np.sqrt(n))
    else:
        r0 = float(np.linalg.norm(b - At @ (x0 if x0 is not None else np.zeros(n))))
        bound = 4 * 1e-5 * np.sqrt(3 * (5 * n + 1) * np.linalg.norm(A, 2) ** 2 + r0**2) * float(np.linalg.norm(x)) + 1e-300
        if nb == 0.0:
            bound = max(bound, 1e-300)
    if res > bound and solver_name == "MINRES":
        # scipy's MINRES also stops (info == 0) at its least-squares criterion |A r| <= rtol * Anorm_est * |r|
        # ("a least-squares solution was found, given rtol"); Anorm_est is bounded as above
        rvec = At @ x - b
        if float(np.linalg.norm(At.T @ rvec)) <= 4 * 1e-5 * np.sqrt(3 * (5 * n + 1) * np.linalg.norm(A, 2) ** 2 + r0**2) * float(np.linalg.norm(rvec)):
            labels.append("minres_least_squares_stop")
            res = 0.0
    if res > bound:
        return violation(f"residual|{sig0}", f"{solver_name}: |A{'^T' if case['trans'] else ''}x-b|={res:.3e} > {bound:.3e} (n={n}, |b|={nb:.3e}, guess={case['guess']}, fmt={case['fmt']})", labels)
    nontriv = n >= 3 and (case["trans"] or case["guess"] != "none" or case["fmt"] != "csc" or singular)
    if not nontriv:
        return trivial("small_or_plain", labels)
    return ok(labels, True)
