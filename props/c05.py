"""C05 -- user functions are only evaluated inside the variable bounds.

Generated: nlp / degenerate / infeasible problems with every variable-bound kind; in-bounds starts;
all Newton types (incl. Globalized), active-set rules, controllers, penalties; with and without
custom scaling; derivative check off.  A recording wrapper around the user's Problem logs the
argument of every callback call made during solve() (the log is cleared after Solver.__init__, so
the evaluation at the user-supplied scaling point is exempt) together with the pygradflow call
site that issued it.

Oracle: every logged argument satisfies lb <= x <= ub with exact comparisons on the user's own
bounds; every iterate / next iterate handed to the ComputedStep callback satisfies the internal
bounds exactly; result.x satisfies the bounds exactly.  Holds for runs that end in a deliberate
exception as well.
"""

import numpy as np
from hypothesis import strategies as st

from vf import solvecase as SC
from vf import strategies as S
from vf.runner import excluded, ok, trivial, violation
from vf.spec import Ref, make_user_problem
from vf.trace import make_recording_problem, make_tracing_solver, run_solve

ID = "C05"
LEVEL = "exploration"
BUDGET = {"quick": 30, "thorough": 700}
CASE_TIMEOUT = 90
RULE = (
    "case = (spec, in-bounds start, params, scaling none/custom); every callback evaluation of the "
    "run is one execution. distinct = SHA-256 of the case; non-trivial = >= 1 finite variable bound "
    "and >= 1 evaluation at a point with a component exactly on a bound (i.e. clipping was needed)."
)
ASSUMPTIONS = ["Precision.Double (casting an in-bounds x0 to float32 can leave the box by rounding; no property claims that)"]


def strategy(tier):
    @st.composite
    def _s(draw):
        case = draw(SC.solve_case(
            families=("nlp", "nlp", "degenerate", "infeasible", "qp", "patternvar", "intbox", "concavebox"),
            max_n=4 if tier == "quick" else 6,
            max_m=3,
            scalings=("none", "none", "custom", "custom", "nominal"),
            iteration_limit=120 if tier == "quick" else 400,
        ))
        # a caller that prepares several solvers with one weight buffer: the arrays handed to Scaling(...) are
        # overwritten in place after the Solver exists and before solve() is called
        case["reuse_weight_buffer"] = draw(st.booleans())
        return case

    return _s()


def check(case):
    spec = case["spec"]
    r = Ref(spec)
    labels = SC.config_labels(case)
    newton = case["params"].get("newton_type", "Simplified")
    inner = make_user_problem(spec)
    rec = make_recording_problem(inner)
    try:
        _, params, x0, y0 = SC.build(case)
        solver = make_tracing_solver(rec, params)
    except Exception as e:
        return excluded(f"build:{type(e).__name__}", labels)
    rec.clear()
    rec.returned = []
    bufs = getattr(getattr(params, "scaling", None), "_vf_caller_buffers", None)
    if case.get("reuse_weight_buffer") and bufs is not None:
        for a in bufs:
            a[:] = a + 3
        labels.append("weight_buffer_overwritten_after_init")
    out = run_solve(rec, params, x0, y0, solver=solver)
    nevals = len(rec.log)
    bad = [(name, x, fr) for (name, x, inb, fr) in rec.log if not inb]
    if bad:
        name, x, fr = bad[0]
        j = int(np.argmax(np.maximum(r.lb - x, x - r.ub)))
        return violation(
            f"eval-outside-bounds|{fr}|{newton}",
            f"{len(bad)}/{nevals} evaluations outside the box; first: {name} at x[{j}]={x[j]!r} vs [{r.lb[j]!r},{r.ub[j]!r}] issued from {fr} (newton={newton})",
            labels, sub=nevals,
        )
    for k, (it, nit, acc) in enumerate(out.cb):
        for which, itx in (("iterate", it), ("next_iterate", nit)):
            lbi, ubi = itx.problem.var_lb, itx.problem.var_ub
            if not (np.all(itx.x >= lbi) and np.all(itx.x <= ubi)):
                j = int(np.argmax(np.maximum(lbi - itx.x, itx.x - ubi)))
                return violation(
                    f"callback-iterate-outside-bounds|{which}|{newton}",
                    f"ComputedStep #{k}: {which}.x[{j}]={itx.x[j]!r} outside internal bounds [{lbi[j]!r},{ubi[j]!r}] (accepted={acc})",
                    labels, sub=nevals,
                )
    if out.result is not None:
        x = np.asarray(out.result.x)
        if not r.in_box(x):
            j = int(np.argmax(np.maximum(r.lb - x, x - r.ub)))
            return violation(f"result-outside-bounds|{newton}", f"result.x[{j}]={x[j]!r} outside [{r.lb[j]!r},{r.ub[j]!r}]", labels, sub=nevals)
        labels.append(f"status:{out.result.status.name}")
    else:
        labels.append(f"raised:{'deliberate' if out.deliberate else out.exc_sig}")
    finite = np.isfinite(r.lb) | np.isfinite(r.ub)
    on_bound = any(np.any((x == r.lb) | (x == r.ub)) for (_, x, _, _) in rec.log[1:])
    if not (finite.any() and on_bound and nevals >= 5):
        return trivial("no_bound_touched", labels, sub=nevals)
    return ok(labels + ["bound_touched"], True, sub=nevals)
