"""C07 -- failures at trial points are survived and never accepted.

Generated: problem x configuration (all step solvers x controllers x Newton types; LU and GMRES;
scaling none/custom).  A fault-free reference run counts the K callback evaluations (per
component) and the L factorisations / linear solves of the run.  Then, *inside the case*, faults
are injected one per run at enumerated positions: quick tier a generated subset of positions per
component, thorough tier every position of every component with at most 150 positions.  Fault kinds: nan / +inf /
-inf in the objective, one gradient entry, one constraint, one Jacobian / Hessian datum;
LinearSolverError at the k-th factorisation or the k-th solve; region-persistent evaluation
failure (every evaluation further than R from the start fails, forever).

Oracle: each fired fault is classified by phase from the tracing solver's state -- 'initial'
(before the first step computation), 'trial' (inside a step computation), 'observer' (reporting
code: display between steps, the condition estimator's solves).
initial  => solve raises exactly the dedicated "Failed to evaluate initial iterate" error;
trial    => that step is discarded: accepted == False, the same iterate object is returned, the
            returned lambda exceeds 1/dt, and the next step starts from the unchanged iterate;
observer => no exception and the digest of the run equals the fault-free reference's;
always   => the run ends with a status or the deliberate inverse-step-size error, x, y, d are
            finite, every adopted iterate holds only finite function values, no adopted iterate lies
            in a persistently failing region, and an Optimal result satisfies the C01 KKT oracle.
"""

import numpy as np
from hypothesis import strategies as st

from vf import solvecase as SC
from vf import strategies as S
from vf.clock import StepClock, virtual_clock
from vf.faults import COMPONENTS, linear_solver_faults, make_faulty_problem, on_stack
from vf.history import adoptions
from vf.runner import excluded, ok, trivial, violation
from vf.spec import Ref, make_user_problem
from vf.trace import make_tracing_solver, run_solve

ID = "C07"
LEVEL = "fault_enumeration"
BUDGET = {"quick": 6, "thorough": 40}
CASE_TIMEOUT = 900
RULE = (
    "case = (spec, start, params, scaling, position fractions, fault values, region); inside each "
    "case one fault per run is injected at the enumerated positions (executions = injected runs). "
    "distinct = SHA-256 of the case; non-trivial = at least one injected fault fired after the "
    "starting point inside a step computation that was accepted in the fault-free reference run."
)
ASSUMPTIONS = [
    "validate_input=True (default): non-finite callback values are detected by the validating evaluator",
    "a failed condition estimate (observer phase) is reporting only and need not discard the step (it must not perturb it either, cf. C09)",
    "a solve is deterministic (C10), so the fault-free reference run is a valid oracle",
]
SHRINK_BUDGET = {"quick": 60, "thorough": 240}
VALUES = ["nan", "inf", "-inf"]


def strategy(tier):
    @st.composite
    def _s(draw):
        case = draw(
            SC.solve_case(
                families=("nlp", "nlp", "qp", "infeasible"),
                max_n=4,
                max_m=2,
                scalings=("none", "none", "custom"),
                iteration_limit=draw(st.sampled_from([12, 30])) if tier == "quick" else 40,
                # Globalized Newton is left out: its line-search failure is a deliberate error of its own
                # (C06) that a perturbed trajectory may run into; C07 quantifies over step solvers and
                # controllers, not Newton variants
                params_kw={"linsolvers": ["LU", "LU", "GMRES"], "newton": ["Simplified", "Full", "ActiveSet"]},
            )
        )
        if draw(st.booleans()):
            case["params_extra"] = {"report_rcond": True}
        if draw(st.booleans()):
            # a progress row is assembled in every iteration (display_interval=0 under the frozen clock):
            # reporting code then also touches rejected trial points
            case.setdefault("params_extra", {})["display_interval"] = 0.0
        nfr = 3 if tier == "quick" else 6
        fr = st.lists(st.integers(0, 999), min_size=nfr, max_size=nfr)
        case["fracs"] = {c: draw(fr) for c in COMPONENTS + ["fact", "solve"]}
        case["early"] = draw(st.integers(0, 3))  # also the first `early`+1 positions of each component
        case["values"] = draw(st.lists(st.sampled_from(VALUES), min_size=3, max_size=3))
        case["entry"] = draw(st.integers(0, 7))
        case["region"] = {"R": draw(st.sampled_from([0.05, 0.25, 1.0, 4.0])), "component": draw(st.sampled_from(["any", "obj", "cons", "obj_grad", "cons_jac", "lag_hess"])), "value": draw(st.sampled_from(VALUES))}
        case["exhaustive"] = tier == "thorough"
        return case

    return _s()


def _phase(solver):
    if on_stack("estimate_rcond"):
        return ("observer", len(solver.trials) - 1)
    if solver.in_trial:
        return ("trial", len(solver.trials) - 1)
    if len(solver.trials) == 0:
        return ("initial", -1)
    return ("observer", len(solver.trials) - 1)


def _one_run(case, plan=None, ls=None):
    """returns (out, faulty_problem, factory, solver)"""
    spec = case["spec"]
    inner = make_user_problem(spec)
    holder = {}
    fp = make_faulty_problem(inner, plan, phase_of=lambda: _phase(holder["solver"]))
    _, params, x0, y0 = SC.build(case)
    fp.armed = False
    solver = make_tracing_solver(fp, params)
    holder["solver"] = solver
    # evaluations during Solver.__init__ (scaling point) are not part of the run
    fp.count = {c: 0 for c in COMPONENTS}
    fp.total = 0
    fp.calls = []
    fp.armed = True
    kw = dict(ls or {})
    # virtual clock that never advances: no wall-clock dependent display rows (deterministic counts)
    with virtual_clock(StepClock(None)), linear_solver_faults(phase_of=lambda: _phase(solver), **kw) as fac:
        out = run_solve(fp, params, x0, y0, solver=solver)
    return out, fp, fac, solver


def _adopted_finite(out, solver):
    for t, a in zip(out.trials, adoptions(out.trials, out.result, solver)):
        if a:
            it = t.it_out
            vals = [it.obj, it.obj_grad, it.cons]
            if it.problem.num_cons > 0:
                vals.append(it.cons_jac.data)
            for v in vals:
                if not np.all(np.isfinite(np.asarray(v, dtype=float))):
                    return t
    return None


def check(case):
    from pygradflow.status import SolverStatus

    spec = case["spec"]
    labels = SC.config_labels(case)
    ss = case["params"].get("step_solver_type", "Symmetric")
    try:
        ref, fp0, fac0, solver0 = _one_run(case)
    except Exception as e:
        return excluded(f"build:{type(e).__name__}", labels)
    if ref.exc is not None and not ref.deliberate:
        return trivial(f"reference_crashes:{ref.exc_sig}", labels)
    K = dict(fp0.count)
    L = {"fact": fac0.n_fact, "solve": fac0.n_solve}
    ref_accepted = [bool(t.accepted) for t in ref.trials]
    r = Ref(spec)
    x0a = S.x0_array(spec, case["start"])
    sub = 0
    nontrivial_hits = 0
    phases_seen = set()

    def first_at_start(comp, fired_entry):
        # fired_entry = (component, overall index, phase, x); first evaluation of this component?
        xarg = np.asarray(fired_entry[3], dtype=float)
        return fired_entry[4] == 0 and xarg.shape == x0a.shape and np.array_equal(xarg, x0a) if len(fired_entry) > 4 else False

    def positions(name, count):
        if count <= 0:
            return []
        if case.get("exhaustive") and count <= 150:
            return list(range(count))
        pos = {min(count - 1, (f * count) // 1000) for f in case["fracs"][name]}
        pos.update(range(min(count, case.get("early", 0) + 1)))
        return sorted(pos)

    def judge(out, solver, fired, what, comp):
        """apply the oracle to one injected run; returns a violation or None"""
        nonlocal nontrivial_hits
        if not fired:
            return None
        phase, tidx = fired[0][2]
        # "a failure at the starting point": the first evaluation of every component happens at the
        # starting point (checked: its argument is the transformed x0), whatever the solver is doing
        # at that moment -- it must be reported as the initial-point error, not handled as a failed step
        if comp in COMPONENTS and fired[0][1] is not None and len(fired[0]) > 3 and first_at_start(comp, fired[0]):
            phase = "initial"
        phases_seen.add(phase)

        def V(clause, msg):
            where = f"|{ss}" if (comp in ("fact", "solve") and phase != "initial") else ""
            return violation(f"{clause}|{comp}|{phase}{where}", f"{what} [phase {phase}, step {tidx}]: {msg}", labels, sub=sub)

        if phase == "initial":
            if out.exc is None or not (type(out.exc) is Exception and str(out.exc).startswith("Failed to evaluate initial iterate")):
                ended = f"raised {type(out.exc).__name__}: {str(out.exc)[:100]} ({out.exc_sig})" if out.exc is not None else f"returned {out.result.status.name}"
                return V("initial-fault-not-reported", f"a failure at the starting point must raise the dedicated initial-point error, but solve {ended}")
            return None
        # after the starting point: the run must end with a status or the step-size error
        if out.exc is not None and not (type(out.exc) is Exception and str(out.exc).startswith("Inverse step size")):
            return V("fault-escapes", f"solve raised {type(out.exc).__name__}: {str(out.exc)[:120]} from {out.exc_sig}")
        if out.result is not None:
            for nm, v in (("x", out.result.x), ("y", out.result.y), ("d", out.result.d)):
                if not np.all(np.isfinite(np.asarray(v, dtype=float))):
                    return V("nonfinite-result", f"result.{nm}={np.asarray(v).tolist()}")
        if phase == "trial":
            t = out.trials[tidx]
            if t.lamb is None:
                return V("trial-raised", f"step computation raised {t.exc}")
            if t.accepted is not False or t.it_out is not t.it_in:
                return V("failed-step-not-discarded", f"step with an injected failure returned accepted={t.accepted}, same iterate object={t.it_out is t.it_in}")
            if not t.lamb > 1.0 / t.dt:
                return V("failed-step-lambda", f"failed step returned lambda={t.lamb!r} for dt={t.dt!r}")
            if tidx + 1 < len(out.trials) and out.trials[tidx + 1].it_in is not t.it_in:
                return V("failed-step-point-changed", "the step after the failed one starts from a different iterate")
            if tidx < len(ref_accepted) and ref_accepted[tidx]:
                nontrivial_hits += 1
        elif phase == "observer":
            if out.digest != ref.digest:
                return V("observer-fault-perturbs", f"a failure in reporting code changed the run ({out.result.status.name if out.result else out.exc!r} vs reference {ref.result.status.name if ref.result else ref.exc!r})")
        bad_t = _adopted_finite(out, solver)
        if bad_t is not None:
            return V("nonfinite-iterate-adopted", "an adopted iterate holds non-finite function values")
        if out.result is not None and out.result.status == SolverStatus.Optimal:
            vw, cw, ow = S.weights_of(solver, spec)
            bad = SC.kkt_violations(spec, out.result.x, out.result.y, out.result.d, vw, cw, ow, tau=solver.params.opt_tol, alpha=solver.params.active_tol)
            if bad:
                return V(f"optimal-despite-fault-violates-{bad[0][0]}", "; ".join(m for _, m in bad[:3]))
        return None

    # ---- evaluation faults, one per run ---------------------------------------------------
    vi = 0
    for comp in COMPONENTS:
        for k in positions(comp, K[comp]):
            val = case["values"][vi % len(case["values"])]
            vi += 1
            plan = {"mode": "kth", "component": comp, "k": k, "value": val, "entry": case["entry"]}
            out, fp, fac, solver = _one_run(case, plan)
            sub += 1
            bad = judge(out, solver, fp.fired, f"{comp} evaluation #{k} returns {val}", comp)
            if bad:
                return bad
    # ---- linear-solver faults ------------------------------------------------------------
    for kind in ("fact", "solve"):
        for k in positions(kind, L[kind]):
            out, fp, fac, solver = _one_run(case, None, {"fail_fact": k} if kind == "fact" else {"fail_solve": k})
            sub += 1
            bad = judge(out, solver, fac.fired, f"{'factorisation' if kind == 'fact' else 'linear solve'} #{k} fails", kind)
            if bad:
                return bad
    # ---- region-persistent failure ---------------------------------------------------------
    reg = case["region"]
    plan = {"mode": "region", "center": x0a.tolist(), "R": reg["R"], "component": reg["component"], "value": reg["value"], "entry": case["entry"]}
    out, fp, fac, solver = _one_run(case, plan)
    sub += 1
    if fp.fired:
        phases_seen.add("region")
        comp = "region-" + reg["component"]

        def Vr(clause, msg):
            return violation(f"{clause}|{comp}|persistent|{ss}", f"every {reg['component']} evaluation further than {reg['R']} from x0 fails: {msg}", labels, sub=sub)

        if out.exc is not None and not (type(out.exc) is Exception and str(out.exc).startswith("Inverse step size")):
            return Vr("fault-escapes", f"solve raised {type(out.exc).__name__}: {str(out.exc)[:120]} from {out.exc_sig}")
        if out.result is not None and not all(np.all(np.isfinite(np.asarray(v, dtype=float))) for v in (out.result.x, out.result.y, out.result.d)):
            return Vr("nonfinite-result", "non-finite result")
        if _adopted_finite(out, solver) is not None:
            return Vr("nonfinite-iterate-adopted", "an adopted iterate holds non-finite function values")
        if reg["component"] in ("any", "obj", "obj_grad", "cons", "cons_jac"):
            # these are evaluated when a step is accepted: no adopted iterate may lie in the failing region
            vw, cw, ow = S.weights_of(solver, spec)
            for t, a in zip(out.trials, adoptions(out.trials, out.result, solver)):
                if a:
                    xu = np.frombuffer(t.x_out)[: r.n] * np.ldexp(1.0, -vw)
                    if r.m == 0 and reg["component"] in ("cons", "cons_jac"):
                        continue
                    if np.max(np.abs(xu - x0a), initial=0.0) > reg["R"] * (1 + 1e-12) + 1e-12 * float(np.max(np.abs(x0a), initial=0.0)):
                        return Vr("failing-point-adopted", f"adopted iterate x={xu.tolist()} lies in the failing region")
        if out.result is not None and out.result.status == SolverStatus.Optimal:
            vw, cw, ow = S.weights_of(solver, spec)
            bad = SC.kkt_violations(spec, out.result.x, out.result.y, out.result.d, vw, cw, ow, tau=solver.params.opt_tol, alpha=solver.params.active_tol)
            if bad:
                return Vr(f"optimal-despite-fault-violates-{bad[0][0]}", "; ".join(m for _, m in bad[:3]))
    labels += [f"phase:{p}" for p in sorted(str(p) for p in phases_seen)]
    labels.append(f"K:{'<50' if sum(K.values()) < 50 else '50-400' if sum(K.values()) <= 400 else '>400'}")
    if nontrivial_hits == 0:
        return trivial("no_fault_in_an_otherwise_accepted_step", labels, sub=sub)
    return ok(labels, True, sub=sub, hits=nontrivial_hits)
