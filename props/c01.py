"""C01 -- status Optimal implies the KKT conditions of the user's own problem.

Generated: problem spec (nlp / convex QP / degenerate families; every variable and row kind) x
in-bounds start x full option product (Newton type, step solver, linear solver, controller,
penalty, active-set rule, numeric knobs) x scaling (none / custom / nominal / grad-jac / KKT) x
solver (Solver ~70 %, IntegrationSolver ~30 %, most of the latter started in a corner of a coupled box QP so that
several variables are pinned at once and must be released through events).

Oracle (only when status == Optimal; dense reference of the user's functions at result.x, never
pygradflow code): bounds exactly; row feasibility, stationarity, multiplier signs, bound
multipliers to opt_tol times the power-of-two factor implied by the integer scaling weights.
"""

import numpy as np
from hypothesis import strategies as st

from vf import solvecase as SC
from vf import strategies as S
from vf.runner import excluded, inconclusive, ok, trivial, violation
from vf.trace import Timeout, alarm, run_solve

ID = "C01"
LEVEL = "exploration"
BUDGET = {"quick": 28, "thorough": 700}
CASE_TIMEOUT = 90
RULE = (
    "case = (spec, start, params, scaling, solver kind); spec from nlp/qp/degenerate families "
    "(n<=5 quick, n<=8 thorough; m<=3/4), data = small dyadic rationals; full option product; "
    "scaling none/custom(weights -6..6, obj -3..3)/nominal/gradjac/kkt. distinct = SHA-256 of the "
    "case JSON. non-trivial = status Optimal with >=1 iteration and (an active variable bound, an "
    "active inequality row, or some |y_i| > 10*opt_tol) at the solution."
)
ASSUMPTIONS = [
    "Precision.Double only; available back-ends LU/GMRES/MINRES, controllers Exact/Fixed/ResiduumRatio/DistanceRatio",
    "scaling weights are read from solver.transform.scaling (their correctness is C04/C20's subject)",
    "IntegrationSolver runs are guarded by a 20 s alarm; expiry and its internal assertion failures count as 'no Optimal result', never as violations",
]
SHRINK_BUDGET = {"quick": 40, "thorough": 240}


def strategy(tier):
    max_n = 5 if tier == "quick" else 8
    max_m = 3 if tier == "quick" else 4

    @st.composite
    def _s(draw):
        case = draw(SC.solve_case(families=("nlp", "nlp", "qp", "degenerate", "patternvar", "intbox"), max_n=max_n, max_m=max_m,
                                  iteration_limit=300 if tier == "quick" else 1500))
        kind = draw(st.sampled_from(["solver"] * 11 + ["integration"] * 2 + ["integration_corner"] * 3))
        if kind == "integration" and case["spec"]["n"] > 4:
            kind = "solver"
        if kind == "integration_corner":
            kind = "integration"
            # the flow-integration solver pins variables at their bounds and releases them through events: start it
            # in a corner of a coupled box QP so that several variables are pinned at once
            spec = draw(S.any_spec(families=("convexbox",), max_n=4, max_m=0))
            case["spec"] = spec
            case["start"] = draw(S.start_point(spec, kinds=["corner", "corner", "corner", "vec"]))
            case["scaling"] = draw(S.scaling_dict_strategy(spec, kinds=("none", "none", "custom")))
        case["solver"] = kind
        return case

    return _s()


def _run_integration(case):
    from pygradflow.integration.integration_solver import IntegrationSolver

    problem, params, x0, y0 = SC.build(case, iteration_limit=200)
    solver = IntegrationSolver(problem, params)
    x0a = S.x0_array(case["spec"], case["start"])
    y0a = S.y0_array(case["spec"], case["start"])
    with alarm(20):
        res = solver.solve(x0a, y0a)
    return solver, res


def check(case):
    labels = SC.config_labels(case) + [f"solver:{case.get('solver', 'solver')}"]
    spec = case["spec"]
    if case.get("solver") == "integration":
        try:
            solver, res = _run_integration(case)
        except Timeout:
            return inconclusive("integration_timeout", labels)
        except Exception as e:  # IntegrationSolver's internals are not C01's subject
            return trivial(f"integration_raised:{type(e).__name__}", labels)
        iters = res.iterations
    else:
        try:
            problem, params, x0, y0 = SC.build(case)
        except Exception as e:
            return excluded(f"build:{type(e).__name__}", labels)
        try:
            from vf.trace import make_tracing_solver

            solver = make_tracing_solver(problem, params)
        except Exception as e:
            return excluded(f"solver_init:{type(e).__name__}", labels)
        out = run_solve(problem, params, x0, y0, solver=solver)
        if out.exc is not None:
            return trivial(f"raised:{type(out.exc).__name__}", labels)
        res = out.result
        iters = res.iterations
    from pygradflow.status import SolverStatus

    labels.append(f"status:{res.status.name}")
    if res.status != SolverStatus.Optimal:
        return trivial("not_optimal", labels)
    vw, cw, ow = S.weights_of(solver, spec)
    # the flow-integration solver declares convergence at an *event* (residual == opt_tol) that scipy's
    # root finder localises approximately: observed excess over the tolerance up to ~1e-5 relative
    rel = 1e-3 if case.get("solver") == "integration" else 1e-6
    bad = SC.kkt_violations(spec, res.x, res.y, res.d, vw, cw, ow, tau=solver.params.opt_tol, alpha=solver.params.active_tol, rel_slack=rel)
    if bad:
        clause = bad[0][0]
        sc = (case.get("scaling") or {}).get("kind", "none")
        sig = f"{clause}|scaled={sc != 'none'}|{case.get('solver', 'solver')}"
        return violation(sig, "; ".join(f"[{c}] {m}" for c, m in bad[:4]), labels,
                         x=[float(t) for t in res.x], y=[float(t) for t in res.y], d=[float(t) for t in res.d],
                         weights=[vw.tolist(), cw.tolist(), ow])
    act_b, act_r, bigy = SC.active_info(spec, res.x, res.y)
    nontriv = iters >= 1 and (act_b or act_r or bigy)
    if act_b:
        labels.append("active_bound")
    if act_r:
        labels.append("active_row")
    if not nontriv:
        return trivial("optimal_but_interior_or_0_iterations", labels)
    return ok(labels, True, iterations=int(iters))
